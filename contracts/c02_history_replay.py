"""Replay support for TaskPool._get_task_history: the real method on a stub pool whose database
object returns a given list of task_states rows (bounded native search for a failing input when an
obligation is refuted or left undecided after a change of the code)."""
import itertools
from unittest.mock import MagicMock

from pyvc.spec import REG

ROWS = [(sn, fw, frozenset(fl), st)
        for sn in (1, 2)
        for fw in (False,)
        for fl in ((1,), (2,), (1, 2))
        for st in ('waiting', 'running', 'succeeded', 'failed')]


def _mk(rows, flows):
    from cylc.flow.task_pool import TaskPool
    from cylc.flow.cycling.integer import IntegerPoint
    pool = TaskPool.__new__(TaskPool)
    pool.workflow_db_mgr = MagicMock()
    data = [(sn, fw, set(fl), st) for sn, fw, fl, st in rows]
    pool.workflow_db_mgr.pri_dao.select_prev_instances.side_effect = lambda name, point: data
    return [pool, 'foo', IntegerPoint('1'), set(flows)], {}


def conc_history(model, oname):
    for n in (0, 1, 2, 3):
        seqs = itertools.product(ROWS, repeat=n) if n < 3 else itertools.product(ROWS[::2], repeat=3)
        for rows in seqs:
            for flows in ((1,), (2,), (1, 2), (3,)):
                yield (dict(rows=[list(map(lambda x: sorted(x) if isinstance(x, frozenset) else x, r))
                                  for r in rows], flow_nums=list(flows)),
                       (lambda rows=rows, flows=flows: _mk(rows, flows)))


def install():
    REG.contracts['cylc.flow.task_pool:TaskPool._get_task_history'].concretise = conc_history


install()
