"""C39 — workflow names cannot escape the run directory: the gate function under contract.

workflow_files.validate_workflow_name returns normally only for a name that (relative to the os.path model
of contracts/c38_rm.py: isabs(p) == p.startswith("/"), normpath an arbitrary function of the text)

    is not absolute, and whose normalised form does not start with "."   (".", "..", "../x", "./x" ...)

- every other name raises WorkflowFilesError - and, with check_reserved_names, only after
check_reserved_dir_names has accepted the normalised name.  What normalisation does to a concrete string,
the character rules of WorkflowNameValidator (a table of regular expressions) and the reserved-name scan
(Path.parts, a regex) stay with the bounded check c39_bounded."""
from pyvc.spec import (contract, schema, spec, uninterp, implies, iff, forall, exists, REG)
from contracts.c38_rm import norm_of  # the os.path model

PROPS = ['C39']

contract('cylc.flow.unicode_rules:UnicodeRuleChecker.validate',
         sorts={'string': 'str', 'result': 'tuple[bool,str]'}, pure=True, assumed=True, props=PROPS,
         note='WorkflowNameValidator.validate: character rules (regular expressions); bounded check only')
contract('cylc.flow.workflow_files:check_reserved_dir_names',
         sorts={'name': 'str'}, pure=True, assumed=True, may_raise=['WorkflowFilesError'], props=PROPS,
         note='scan of Path(name).parts for reserved names (regex, pathlib): bounded check only')

contract('cylc.flow.workflow_files:validate_workflow_name',
         sorts={'name': 'str', 'check_reserved_names': 'bool', 'is_valid': 'bool', 'message': 'str'},
         ensures={'an-accepted-name-is-relative-and-does-not-normalise-to-the-run-directory-or-above':
                  'not name.startswith("/") and not norm_of(name).startswith(".")'},
         may_raise=['WorkflowFilesError'], pure=True, props=PROPS)
