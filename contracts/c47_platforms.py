"""C47 — platform and host selection avoids unreachable hosts.

Platform / group configuration dictionaries are record dictionaries (fixed
string keys): RecPlatform {'hosts': [...], 'selection': {'method': ...}},
RecGroup {'platforms': [...], 'selection': {...}}."""
import random

import z3

from pyvc.spec import (contract, schema, spec, uninterp, implies, iff, forall, exists, REG)
from pyvc.core import SV
from pyvc.kinds import parse_kind

M = 'cylc.flow.platforms:'

schema('RecSelection', '', fields={'method': 'str'})
schema('RecPlatform', '', fields={'hosts': 'list[str]', 'selection': 'RecSelection', 'name': 'str'})
schema('RecGroup', '', fields={'platforms': 'list[str]', 'selection': 'RecSelection'})


def _choice(eng, args, kwargs):
    """random.choice(xs): some element of a non-empty list (IndexError if empty)."""
    xs = eng.force(args[0])
    n = eng.list_len(xs)
    if not eng.p.choose(n > 0):
        eng.raise_(IndexError, 'choice from empty sequence')
    i = eng.p.fresh('choice', z3.IntSort())
    eng.p.assume(z3.And(0 <= i, i < n))
    return eng.list_get(xs, i)


REG.externals[random.choice] = _choice


@uninterp(sorts=('str',), result='RecPlatform')
def pf(name):
    """the platform definition a name resolves to (platform_from_name; pure for fixed config)"""
    from cylc.flow.platforms import platform_from_name
    return platform_from_name(name)


contract(M + 'platform_from_name',
         sorts={'platform_name': 'opt[str]', 'platforms': 'none', 'bad_hosts': 'none',
                'result': 'RecPlatform'},
         ensures={'ghost': 'result is pf(platform_name)'},
         pure=True, assumed=True, props=['C47'],
         note='regex matching of platform names against the global config (see bounded note in DESIGN)')


@spec
def inlist(xs, x):
    return exists(lambda j: 0 <= j and j < len(xs) and xs[j] == x)


@spec
def all_bad(hosts, bad):
    return forall(lambda j: implies(0 <= j and j < len(hosts), hosts[j] in bad))


@spec
def truthy_set(s):
    return s is not None and exists(lambda h: h in s, h='str')


contract(M + 'get_host_from_platform',
         sorts={'platform': 'RecPlatform', 'bad_hosts': 'opt[set[str]]', 'result': 'str',
                'goodhosts': 'list[str]'},
         requires=['platform["selection"]["method"] == "definition order" or platform["selection"]["method"] == "random"'],
         raises={'NoHostsError': 'len(platform["hosts"]) == 0 or '
                                 '(truthy_set(bad_hosts) and all_bad(platform["hosts"], bad_hosts))'},
         ensures={
             'a-host-of-the-platform': 'inlist(platform["hosts"], result)',
             # never a host known to be unreachable
             'not-a-bad-host': 'implies(truthy_set(bad_hosts), result not in bad_hosts)',
             'definition-order-takes-the-first-good-host':
                 'implies(platform["selection"]["method"] == "definition order", exists(lambda j: '
                 '0 <= j and j < len(platform["hosts"]) and platform["hosts"][j] == result and '
                 'forall(lambda k: implies(0 <= k and k < j, truthy_set(bad_hosts) '
                 'and platform["hosts"][k] in bad_hosts))))',
         },
         props=['C47'])

contract(M + 'get_platform_from_group',
         sorts={'group': 'RecGroup', 'group_name': 'str', 'bad_hosts': 'opt[set[str]]', 'result': 'str',
                'platform_names': 'list[str]'},
         requires=['group["selection"]["method"] == "definition order" or group["selection"]["method"] == "random"'],
         raises={'NoPlatformsError':
                 'len(group["platforms"]) == 0 or (truthy_set(bad_hosts) and forall(lambda j: implies('
                 '0 <= j and j < len(group["platforms"]), all_bad(pf(group["platforms"][j])["hosts"], bad_hosts))))'},
         ensures={
             'a-member-platform': 'inlist(group["platforms"], result)',
             # never a platform all of whose hosts are unreachable
             'has-a-reachable-host':
                 'implies(truthy_set(bad_hosts), not all_bad(pf(result)["hosts"], bad_hosts))',
         },
         props=['C47'])
