"""C05 — internal queue limits are never exceeded.

LimitedTaskQueue: `deque` is a deque whose *right* end is the oldest entry
(push = appendleft, release = pop).  `active` counts active tasks by name;
A0 = sumover(members, active) is the number of active members on entry."""
from pyvc.spec import (contract, schema, spec, uninterp, implies, iff, forall, exists, sumover, REG)
import contracts.shared_task  # noqa: F401

Q = 'cylc.flow.task_queues.independent:'


@spec
def indeque(q, t):
    """task t is somewhere in the deque of queue q"""
    return exists(lambda j: 0 <= j and j < len(q.deque) and q.deque[j] is t)


contract(Q + 'LimitedTaskQueue.push_task',
         sorts={'self': 'LimitedTaskQueue', 'itask': 'TaskProxy'},
         ensures={
             'member-queued-at-new-end':
                 'implies(itask.tdef.name in self.members, len(self.deque) == old(len(self.deque)) + 1 '
                 'and self.deque[0] is itask)',
             'older-entries-keep-order':
                 'implies(itask.tdef.name in self.members, forall(lambda j: implies('
                 '0 <= j and j < old(len(self.deque)), self.deque[j + 1] is old(self.deque[j]))))',
             'non-member-ignored':
                 'implies(itask.tdef.name not in self.members, len(self.deque) == old(len(self.deque)))',
         },
         modifies=['self.deque[*]'], props=['C05'])

contract(Q + 'LimitedTaskQueue.push_task_if_limited',
         sorts={'self': 'LimitedTaskQueue', 'itask': 'TaskProxy', 'active': 'counter[str]',
                'result': 'bool'},
         ensures={
             'queued-iff-limit-reached':
                 'result == (self.limit != 0 and sumover(self.members, active) >= self.limit '
                 'and itask.tdef.name in self.members)',
             'queued-at-new-end':
                 'implies(result, len(self.deque) == old(len(self.deque)) + 1 and self.deque[0] is itask)',
             'else-untouched': 'implies(not result, len(self.deque) == old(len(self.deque)))',
         },
         modifies=['self.deque[*]'], props=['C05'])

contract(Q + 'LimitedTaskQueue.remove',
         sorts={'self': 'LimitedTaskQueue', 'itask': 'TaskProxy', 'result': 'bool'},
         ensures={
             'true-iff-was-queued': 'result == old(indeque(self, itask))',
             'one-entry-less': 'implies(result, len(self.deque) == old(len(self.deque)) - 1)',
             'else-untouched': 'implies(not result, len(self.deque) == old(len(self.deque)))',
         },
         modifies=['self.deque[*]'], props=['C05'])

contract(Q + 'LimitedTaskQueue.release',
         sorts={'self': 'LimitedTaskQueue', 'active': 'counter[str]', 'result': 'list[TaskProxy]',
                'released': 'list[TaskProxy]', 'held': 'list[TaskProxy]'},
         requires=['self.limit >= 0'],
         ensures={
             # "a queue never releases a task while the number of its active members is at its limit"
             'limit-respected':
                 'self.limit == 0 or len(result) == 0 or '
                 'old(sumover(self.members, active)) + len(result) <= self.limit',
             # "skipping held ones"
             'no-held-task-released':
                 'forall(lambda j: implies(0 <= j and j < len(result), not result[j].state.is_held))',
             # nothing is lost: every queued task is afterwards still queued or was released
             # "released in the order they were queued": result[j] is the entry that stood at
             # position src[j] (ghost) of the old deque, and the positions strictly decrease,
             # i.e. older entries (right end) come first and nothing is invented or repeated
             'released-come-from-the-queue':
                 'len(src) == len(result) and forall(lambda j: implies(0 <= j and j < len(result), '
                 '0 <= src[j] and src[j] < old(len(self.deque)) and result[j] is oldget(self.deque, src[j])))',
             'released-in-queue-order':
                 'forall(lambda j: implies(1 <= j and j < len(result), src[j] < src[j - 1]))',
             # maximality: it stops only at the limit or when every remaining entry is held
             'releases-as-many-as-allowed':
                 '(self.limit != 0 and old(sumover(self.members, active)) + len(result) >= self.limit) '
                 'or forall(lambda j: implies(0 <= j and j < len(self.deque), self.deque[j].state.is_held))',
             'count-conserved':
                 'len(self.deque) + len(result) == old(len(self.deque))',
             'active-counts-updated':
                 'forall(lambda n: implies(not exists(lambda j: 0 <= j and j < len(result) '
                 'and result[j].tdef.name == n), active[n] == old(active[n])), n="str")',
         },
         loops={
             0: dict(invariant=['n_active == sumupto(self.members, active, _i)',
                                'len(released) == 0 and len(held) == 0']),
             1: dict(invariant=[
                 'n_active == old(sumover(self.members, active)) + len(released)',
                 'len(self.deque) + len(released) + len(held) == old(len(self.deque))',
                 'len(self.deque) >= 0',
                 'forall(lambda j: implies(0 <= j and j < len(self.deque), '
                 'self.deque[j] is old(self.deque[j])))',
                 'forall(lambda j: implies(0 <= j and j < len(released), '
                 'not released[j].state.is_held and len(self.deque) <= src[j] '
                 'and src[j] < old(len(self.deque)) and released[j] is oldget(self.deque, src[j])))',
                 'len(src) == len(released)',
                 'forall(lambda j: implies(1 <= j and j < len(src), src[j] < src[j - 1]))',
                 'forall(lambda j: implies(0 <= j and j < len(held), held[j].state.is_held))',
                 'self.limit == 0 or len(released) == 0 or n_active <= self.limit',
                 'forall(lambda n: implies(not exists(lambda j: 0 <= j and j < len(released) '
                 'and released[j].tdef.name == n), active[n] == old(active[n])), n="str")',
             ], modifies=['self.deque[*]', 'released[*]', 'held[*]', 'active[*]', 'src[*]']),
             2: dict(invariant=[
                 'len(self.deque) + len(released) + len(held) == old(len(self.deque)) + _i',
                 'forall(lambda j: implies(0 <= j and j < len(self.deque), '
                 '(j < _i and self.deque[j].state.is_held) or '
                 '(j >= _i and self.deque[j] is old(self.deque[j - _i]))))',
             ], modifies=['self.deque[*]']),
         },
         ghost_vars={'src': 'list[int]'},
         ghost_init=['src = []'],
         ghost_after={'released.append(itask)': 'src.append(len(self.deque))'},
         modifies=['self.deque[*]', 'active[*]'], props=['C05', 'C06'])


@spec
def indeque_at(q, t):
    return exists(lambda j: 0 <= j and j < len(q.deque) and q.deque[j] is t)
