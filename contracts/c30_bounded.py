"""C30 - Removing a task undoes exactly its effects.  BOUNDED stand-in, not a proof.

`cylc remove` (commands.remove_tasks -> commands._remove_matched_tasks) works on a live Scheduler: the task
pool, the flow manager, the data store, the job killer and (through WorkflowDatabaseManager.
remove_task_from_flows) SQL `UPDATE OR REPLACE` statements on the run database.  None of that is inside the
verifier generator's subset, so the contract is checked at run time on REAL Scheduler objects that are
started in-process (simulation mode, scratch HOME), driven by the real main loop and the real commands, with
the pool and the private database snapshotted immediately before and after every remove command.  The oracle
is computed from the graphs generated in this module (who is a child of whom) and from the pre-state only.

Contract (T = the removed instance, sel = the --flow selection, empty = all flows;
          R = the flows actually removed = (T's pool flows | T's flows in task_states/task_outputs) & sel):
  (1) T's pool flow numbers become (old - R); T is in the pool afterwards exactly when some flow remains
  (2) no task_states / task_outputs row of T mentions a flow of R afterwards, rows (and flows) outside R are
      kept, the scheduler's own history lookup finds no history of T in R; dynamically: after the removal a
      re-run of a parent re-spawns T (new job, higher submit number) but not T's un-removed finished siblings,
      and the children that were stood down with T come back once T has run again, whereas without the
      removal nothing downstream runs again
  (3) in every pooled child C of T that shares a removed flow, exactly the prerequisite (and suicide
      prerequisite) entries on T that are satisfied otherwise than by force (`cylc set --pre`) become
      unsatisfied; entries on other tasks and forced entries are never touched; for a child that is only in
      flows T was not removed from (entries carry no flow) the property is silent: unset or kept are both
      accepted; cached prerequisite satisfaction agrees with a fresh evaluation of the expression
  (4) an affected child that is waiting, has no satisfied prerequisite entry left and no flow outside the
      selection leaves the pool; an affected child that is active, or still has a satisfied entry, or is in a
      flow outside the selection, stays
  (5) every other pooled task keeps status, flows, outputs and prerequisites; every other task's rows in
      task_states / task_outputs / task_jobs are identical; a removal with R empty changes nothing at all
  (6) Prerequisite.unset_naturally_satisfied on every assignment of the five satisfaction values to <= 3
      entries: resets exactly the non-forced satisfied entries of the named task, returns whether it did,
      and is_satisfied() afterwards equals a fresh evaluation (no stale cache)."""
import hashlib
import itertools
import os
import re
import shutil
import tempfile

SLOW = 's'          # task with a one hour simulated run length: keeps children waiting and the workflow alive

# graph lines are cylc syntax; the little parser below derives the parent -> child relation from them
GRAPHS = {
    'chain':   dict(final=2, lines=['a => b', 'b => c', 's => c']),
    'fan':     dict(final=1, lines=['a => b', 'a => c', 's => b']),
    'join':    dict(final=1, lines=['a & s => c', 'd => c']),
    'orjoin':  dict(final=1, lines=['a | b => c', 'd => b', 's => c']),
    'cycle':   dict(final=3, lines=['a[-P1] => a', 'a => b', 's => b']),
    'fail':    dict(final=1, lines=['a? => b', 'a:failed? => f', 's => f', 's => b'], fail=['a']),
    'suicide': dict(final=1, lines=['a => x', 's => x', 'b & s2 => !x']),
    'active':  dict(final=1, lines=['a => s', 'a => b', 's => c']),          # a child that is running
}
_KEY = re.compile(r'^(\w+)(?:\[-P(\d+)\])?(?::(\w+))?\??$')


def _parse(lines):
    """[(lhs keys [(name, offset, output)], rhs name, suicide)]"""
    deps = []
    for line in lines:
        lhs, rhs = [x.strip() for x in line.split('=>')]
        keys = []
        for tok in re.split(r'[&|]', lhs):
            m = _KEY.match(tok.strip())
            keys.append((m.group(1), int(m.group(2) or 0), m.group(3) or 'succeeded'))
        deps.append((keys, rhs.lstrip('!'), rhs.startswith('!')))
    return deps


def _children(gname, tid):
    """identities of the graph children of instance tid ('point/name') - the oracle's view of the graph"""
    g = GRAPHS[gname]
    point, name = tid.split('/')
    out = set()
    for keys, rhs, _ in _parse(g['lines']):
        for kname, off, _out in keys:
            if kname == name and 1 <= int(point) + off <= g['final']:
                out.add(f'{int(point) + off}/{rhs}')
    return out


def _parents(gname, tid):
    g = GRAPHS[gname]
    point, name = tid.split('/')
    out = set()
    for keys, rhs, suicide in _parse(g['lines']):
        if rhs == name and not suicide:
            for kname, off, _out in keys:
                if int(point) - off >= 1:
                    out.add(f'{int(point) - off}/{kname}')
    return out


def _flow_text(gname):
    g = GRAPHS[gname]
    txt = ['[scheduler]', '    allow implicit tasks = True', '[scheduling]', '    cycling mode = integer',
           '    initial cycle point = 1', f'    final cycle point = {g["final"]}', '    [[graph]]',
           '        P1 = """'] + ['            ' + ln for ln in g['lines']] + ['        """', '[runtime]',
           '    [[root]]', '        [[[simulation]]]', '            default run length = PT0S',
           f'    [[{SLOW}, {SLOW}2]]', '        [[[simulation]]]', '            default run length = PT1H']
    for name in g.get('fail', []):
        txt += [f'    [[{name}]]', '        [[[simulation]]]', '            fail cycle points = 1']
    return '\n'.join(txt) + '\n'


# ----------------------------------------------------------------------------------------------------------
# environment
class _Env:
    """scratch HOME / run directory; restores environment, cwd, logging, global config, cycling globals"""

    def __enter__(self):
        import logging
        self.home = tempfile.mkdtemp(prefix='verif_c30_', dir='/var/tmp')
        self.environ = dict(os.environ)
        self.cwd = os.getcwd()
        os.environ['HOME'] = self.home
        os.environ['CYLC_CONF_PATH'] = self.home          # no site / user global.cylc
        os.environ.pop('CYLC_SITE_CONF_PATH', None)
        from cylc.flow.cfgspec.glbl_cfg import glbl_cfg
        from cylc.flow.cycling import loader
        import cylc.flow.flags
        self.cycler = getattr(loader.DefaultCycler, 'TYPE', None)
        self.verbosity = cylc.flow.flags.verbosity
        self.loggers = {}
        for lname in ('cylc', 'cylc-rundb', 'cylc-install'):
            lg = logging.getLogger(lname)
            self.loggers[lname] = (lg, list(lg.handlers), lg.level, lg.propagate)
        self.quiet = logging.NullHandler()
        logging.getLogger('cylc').addHandler(self.quiet)
        self.raise_exc = logging.raiseExceptions
        glbl_cfg(reload=True)
        self.n = 0
        return self

    def __exit__(self, *exc):
        import logging
        for lg, handlers, level, propagate in self.loggers.values():
            for h in list(lg.handlers):
                if h not in handlers:
                    lg.removeHandler(h)
                    try:
                        h.close()
                    except Exception:      # noqa: BLE001
                        pass
            lg.setLevel(level)
            lg.propagate = propagate
        logging.raiseExceptions = self.raise_exc
        os.environ.clear()
        os.environ.update(self.environ)
        try:
            os.chdir(self.cwd)
        except OSError:
            pass
        from cylc.flow.cfgspec.glbl_cfg import glbl_cfg
        from cylc.flow.cycling import loader
        import cylc.flow.flags
        cylc.flow.flags.verbosity = self.verbosity
        if self.cycler is None:
            if hasattr(loader.DefaultCycler, 'TYPE'):
                try:
                    del loader.DefaultCycler.TYPE
                except AttributeError:
                    pass
        else:
            loader.DefaultCycler.TYPE = self.cycler
        try:
            glbl_cfg(reload=True)
        except Exception:                  # noqa: BLE001
            pass
        shutil.rmtree(self.home, ignore_errors=True)
        return False


class _Ended(Exception):
    """the workflow shut itself down during a history"""


class _Run:
    """one real Scheduler, started in-process"""

    def __init__(self, env, gname):
        self.env, self.gname, self.schd = env, gname, None

    async def __aenter__(self):
        from cylc.flow.scheduler import Scheduler
        from cylc.flow.scheduler_cli import RunOptions
        self.env.n += 1
        wid = f'c30/{self.gname}{self.env.n}'
        self.rundir = os.path.join(self.env.home, 'cylc-run', wid)
        os.makedirs(self.rundir)
        with open(os.path.join(self.rundir, 'flow.cylc'), 'w') as fh:
            fh.write(_flow_text(self.gname))
        schd = self.schd = Scheduler(wid, RunOptions(paused_start=False, run_mode='simulation'))
        schd.INTERVAL_MAIN_LOOP = 0.0              # instance attributes: do not sleep between iterations
        schd.INTERVAL_MAIN_LOOP_QUICK = 0.0
        await schd.install()
        await schd.start()
        if getattr(schd, 'server', None) is not None:
            schd.server.STOP_SLEEP_INTERVAL = 0.01     # harness speed only: the server thread polls faster,
            schd.server.OPERATE_SLEEP_INTERVAL = 0.02  # so that stopping it does not take 0.2 - 0.4 s
        return self

    async def __aexit__(self, *exc):
        import asyncio
        from cylc.flow.scheduler import SchedulerStop
        schd = self.schd
        try:
            async with asyncio.timeout(20):
                await schd.shutdown(SchedulerStop('c30 bounded check teardown'))
        finally:
            if hasattr(schd, 'workflow_db_mgr'):
                schd.workflow_db_mgr.on_workflow_shutdown()
            shutil.rmtree(self.rundir, ignore_errors=True)
        return False

    # ---- driving --------------------------------------------------------------------------------------
    async def do(self, op):
        from cylc.flow.commands import (force_trigger_tasks, remove_tasks, run_cmd,
                                        set_prereqs_and_outputs)
        from cylc.flow.scheduler import SchedulerStop
        schd = self.schd
        if op[0] == 'run':
            for _ in range(op[1]):
                try:
                    await schd._main_loop()
                except SchedulerStop as exc:
                    raise _Ended(str(exc)) from None
        elif op[0] == 'trigger':
            await run_cmd(force_trigger_tasks(schd, [op[1]], list(op[2])))
        elif op[0] == 'setpre':
            await run_cmd(set_prereqs_and_outputs(schd, [op[1]], [], None, list(op[2])))
        elif op[0] == 'setout':
            await run_cmd(set_prereqs_and_outputs(schd, [op[1]], [], list(op[2]), None))
        elif op[0] == 'remove':
            await run_cmd(remove_tasks(schd, [op[1]], [str(f) for f in op[2]]))
        else:
            raise ValueError(op)

    # ---- observing ------------------------------------------------------------------------------------
    def snap(self):
        import json
        import sqlite3
        schd = self.schd
        schd.process_workflow_db_queue()
        pool = {}
        for it in schd.pool.get_tasks():
            def dump(prereqs):
                out = []
                for p in prereqs:
                    items = {f'{k.point}/{k.task}:{k.output}': (v or False) for k, v in p.items()}
                    expr = p.get_raw_conditional_expression()
                    out.append(dict(items=items, expr=expr, cached=bool(p.is_satisfied()),
                                    fresh=_evaluate(expr, items)))
                return out
            pool[it.identity] = dict(
                status=it.state.status, flows=sorted(it.flow_nums), submit_num=it.submit_num,
                prereqs=dump(it.state.prerequisites), suicide=dump(it.state.suicide_prerequisites),
                outputs=sorted(it.state.outputs.get_completed_outputs()))
        db = {}
        con = sqlite3.connect(f'file:{schd.workflow_db_mgr.pri_path}?mode=ro', uri=True)
        try:
            for table, cols in (('task_states', 'cycle, name, flow_nums, submit_num, status, flow_wait, '
                                                'is_manual_submit, time_created, time_updated'),
                                ('task_outputs', 'cycle, name, flow_nums, outputs'),
                                ('task_jobs', 'cycle, name, flow_nums, submit_num, submit_status, run_status, '
                                              'time_submit, time_run, time_run_exit')):
                rows = {}
                for row in con.execute(f'SELECT {cols} FROM {table}'):      # nosec (constants)
                    rows.setdefault(f'{row[0]}/{row[1]}', []).append(
                        (tuple(sorted(json.loads(row[2]))),) + tuple(row[3:]))
                db[table] = {k: sorted(v, key=repr) for k, v in rows.items()}
        finally:
            con.close()
        return dict(pool=pool, db=db)

    def history_status(self, tid, flows):
        """the scheduler's own 'has this task run in these flows' lookup (read only)"""
        from cylc.flow.cycling.loader import get_point
        point, name = tid.split('/')
        return self.schd.pool._get_task_history(name, get_point(point), set(flows))[1]


def _evaluate(expr, items):
    """fresh evaluation of a prerequisite from its entries: conjunction, or the raw conditional expression"""
    if not items:
        return True
    if not expr:
        return all(bool(v) for v in items.values())
    for key in sorted(items, key=len, reverse=True):
        point_name, output = key.rsplit(':', 1)
        expr = expr.replace(f'{point_name} {output}', ' T ' if items[key] else ' F ')
    expr = expr.replace('&', ' and ').replace('|', ' or ').replace(' T ', ' True ').replace(' F ', ' False ')
    if re.search(r'[^TrueFalsandor() ]', expr):
        raise ValueError(expr)
    return bool(eval(expr, {'__builtins__': {}}, {}))     # nosec - built from True/False/and/or/() only


# ----------------------------------------------------------------------------------------------------------
# the contract
FORCED = 'force satisfied'


def _contract(run, gname, pre, post, tid, sel):
    """-> (problems, facts).  Everything expected is derived from `pre`, the graph model and (tid, sel)."""
    problems = []
    facts = dict(removed_flows=[], unset=0, kept_forced=0, kept_other=0, child_removed=0, child_stays=0,
                 free=0, noop=False, in_pool=tid in pre['pool'])

    def bad(clause, **kw):
        problems.append(dict(clause=clause, **kw))

    selset = set(sel)
    ppool, qpool = pre['pool'], post['pool']
    pool_flows = set(ppool[tid]['flows']) if tid in ppool else set()
    db_flows = set()
    for table in ('task_states', 'task_outputs'):
        for row in pre['db'][table].get(tid, []):
            db_flows.update(row[0])
    hit_pool = pool_flows if not sel else pool_flows & selset
    removed = hit_pool | (db_flows if not sel else db_flows & selset)          # R
    facts['removed_flows'] = sorted(removed)
    facts['noop'] = not removed
    # the result this evaluation is reported under (all clauses are checked in all three)
    facts['domain'] = ('nothing' if not removed else
                       'elsewhere' if tid in ppool and not hit_pool else 'main')

    # (1) flows of the instance, pool membership
    if tid in ppool:
        left = pool_flows - hit_pool
        if left:
            if tid not in qpool:
                bad(1, what='instance left the pool although flows remain', remaining=sorted(left))
            elif set(qpool[tid]['flows']) != left:
                bad(1, what='wrong flow numbers after removal', got=qpool[tid]['flows'], expected=sorted(left))
        elif tid in qpool:
            bad(1, what='instance still in the pool with no flow left', got=qpool[tid]['flows'])
    elif tid in qpool:
        bad(1, what='instance appeared in the pool')

    # (2) history rows
    for table in ('task_states', 'task_outputs'):
        before = [set(r[0]) for r in pre['db'][table].get(tid, [])]
        after = [set(r[0]) for r in post['db'][table].get(tid, [])]
        expected = {frozenset(f - removed) for f in before}
        if {frozenset(f) for f in after} != expected:
            bad(2, what=f'{table} flow numbers of the removed task', before=[sorted(f) for f in before],
                after=[sorted(f) for f in after], expected=sorted(sorted(f) for f in expected))
    if removed:
        status = run.history_status(tid, removed)
        if status is not None:
            bad(2, what='the history lookup still finds the task in a removed flow', status=status,
                flows=sorted(removed))

    # (3) (4) (5) every other pooled task
    children = _children(gname, tid)
    removed_children = set()
    for cid, c in ppool.items():
        if cid == tid:
            continue
        cflows = set(c['flows'])
        # a child that shares a removed flow must have its entries on T unset; for a child that is only in
        # other flows while T did lose flows the property does not say (entries carry no flow): either is
        # accepted ('free'); everything else must stay as it is
        definite = cid in children and bool(cflows & removed)
        free = cid in children and bool(removed) and not definite
        exp, low = {}, {}            # expected entries; for a free child: the entries if they were unset as well
        changed = lowered = False
        for kind in ('prereqs', 'suicide'):
            exp[kind], low[kind] = [], []
            for p in c[kind]:
                items = dict(p['items'])
                lo = dict(items)
                for key, val in p['items'].items():
                    if key.rsplit(':', 1)[0] != tid or not val:
                        if val:
                            facts['kept_other'] += 1
                        continue
                    if val == FORCED:
                        facts['kept_forced'] += 1
                    elif definite:
                        items[key] = lo[key] = False
                        changed = True
                        facts['unset'] += 1
                    elif free:
                        lo[key] = False
                        lowered = True
                        facts['free'] += 1
                exp[kind].append(items)
                low[kind].append(lo)
        outside = cflows - (cflows if not sel else selset)
        if cid not in qpool:
            ref = exp if changed else low if lowered else None
            if ref is None:
                bad(5, task=cid, what='unaffected task left the pool',
                    was=dict(status=c['status'], flows=c['flows']))
                continue
            any_left = any(v for items in ref['prereqs'] for v in items.values())
            if c['status'] != 'waiting' or any_left or outside:
                bad(4, child=cid, what='child removed from the pool although it ' + (
                    'is active' if c['status'] != 'waiting' else
                    'still has a satisfied prerequisite' if any_left else 'is in a flow outside the selection'),
                    status=c['status'], flows=c['flows'], expected_prerequisites=ref['prereqs'])
            else:
                facts['child_removed'] += 1
                removed_children.add(cid)
            continue
        if changed:
            any_left = any(v for items in exp['prereqs'] for v in items.values())
            if c['status'] == 'waiting' and not any_left and not outside and cflows <= removed:
                bad(4, child=cid, what='waiting child with no satisfied prerequisite left stays in the pool',
                    prerequisites=[p['items'] for p in qpool[cid]['prereqs']])
            else:
                facts['child_stays'] += 1
        q = qpool[cid]
        for kind in ('prereqs', 'suicide'):
            got = [p['items'] for p in q[kind]]
            ok = got == exp[kind] or (lowered and len(got) == len(exp[kind]) and all(
                set(g) == set(e) and all(g[k] in (e[k], lo[k]) for k in e)
                for g, e, lo in zip(got, exp[kind], low[kind])))
            if not ok:
                bad(3 if cid in children else 5, task=cid, what=f'{kind} entries', got=got, expected=exp[kind],
                    before=[p['items'] for p in c[kind]], task_flows=c['flows'])
        for field in ('status', 'flows', 'outputs'):
            if q[field] != c[field]:
                bad(5, task=cid, what=field, got=q[field], before=c[field])
    for cid, q in qpool.items():
        if cid not in ppool and cid != tid and any(p['items'] for p in q['prereqs']):
            bad(5, task=cid, what='a task with prerequisites entered the pool during the removal')
        for kind in ('prereqs', 'suicide'):
            for p in q[kind]:
                if p['cached'] != p['fresh']:
                    bad(3, task=cid, what='cached prerequisite satisfaction is stale', entries=p['items'],
                        expression=p['expr'], cached=p['cached'], fresh=p['fresh'])

    # (5) database rows of all other tasks
    for table in ('task_states', 'task_outputs', 'task_jobs'):
        for key in set(pre['db'][table]) | set(post['db'][table]):
            if key == tid:
                continue
            b, a = pre['db'][table].get(key), post['db'][table].get(key)
            if a == b:
                continue
            if key in removed_children and table != 'task_jobs':
                continue        # a child that left the pool may have its history erased as well
            bad(5, task=key, what=f'{table} rows of another task changed', before=_js(b), after=_js(a))

    # removing from a flow the task is not in changes nothing
    if not removed:
        if post['pool'] != pre['pool']:
            diff = sorted(k for k in set(ppool) | set(qpool) if ppool.get(k) != qpool.get(k))
            bad(5, what='nothing was removed but the pool changed', tasks=diff,
                before={k: _brief(ppool.get(k)) for k in diff}, after={k: _brief(qpool.get(k)) for k in diff})
        if post['db'] != pre['db']:
            bad(5, what='nothing was removed but the database changed')
    return problems, facts


def _brief(t):
    if t is None:
        return None
    return dict(status=t['status'], flows=t['flows'], prereqs=[p['items'] for p in t['prereqs']])


def _js(x):
    return None if x is None else [list(map(str, r)) for r in x]


# ----------------------------------------------------------------------------------------------------------
# histories
def _first(gname):
    return '1/a'


def _preludes(gname, tier):
    """operations before the explored state; k further main loop iterations follow"""
    g = GRAPHS[gname]
    first = _first(gname)
    kids = sorted(_children(gname, first))
    out = [('plain', []),
           ('newflow1', [('run', 1), ('trigger', first, ['new'])]),
           ('newflow2', [('run', 2), ('trigger', first, ['new'])]),
           ('both', [('trigger', first, ['1', '2'])])]
    if kids:
        out.append(('setpre', [('setpre', kids[0], [first])]))
    if tier != 'quick':
        out.append(('setout', [('run', 1), ('setout', f'1/{SLOW}', ['succeeded'])]))
        if g['final'] > 1:
            out.append(('newflow-late', [('run', 2), ('trigger', '2/a', ['new'])]))
        if kids:
            out.append(('setpre+newflow', [('setpre', kids[0], [first]), ('run', 2),
                                           ('trigger', first, ['new'])]))
    return out


SELECTIONS = [(), (1,), (2,), (1, 2), (3,)]
WEIGHTED = [(), (), (), (1,), (1,), (2,), (2,), (1, 2), (3,)]      # seeded choices favour non-empty removals
# directed histories, run in both tiers before the enumeration: (graph, operations, instance, --flow, then)
DIRECTED = [
    # a forced entry survives, the natural one goes; the child stays while another arrow holds it, then goes
    ('join', [('setpre', '1/c', ['1/a']), ('run', 2)], '1/a', (), [('remove?', '1/d', ())]),
    ('join', [('run', 2)], '1/a', (), [('remove?', '1/d', ())]),
    # removal from one of two flows, then the other
    ('chain', [('trigger', '1/a', ['1', '2']), ('run', 2)], '1/b', (1,), [('remove?', '1/b', (2,))]),
    # children that are only in the other flow are not concerned
    ('fan', [('run', 1), ('trigger', '1/a', ['new']), ('run', 1)], '1/a', (1,), [('remove?', '1/a', (2,))]),
    ('orjoin', [('run', 3)], '1/a', (), [('remove?', '1/b', ())]),
    ('suicide', [('run', 2)], '1/b', (), [('remove?', '1/a', ())]),
    ('cycle', [('run', 2)], '1/a', (), [('remove?', '2/a', ())]),
    # a running instance, a failed instance, a running child
    ('chain', [('run', 1)], '1/s', (), [('run', 1)]),
    ('active', [('run', 2)], '1/a', (), [('run', 1)]),
    ('fail', [('run', 2)], '1/a', (), []),
    # the parent never was in flow 2 but the (merged) child is
    ('join', [('run', 2), ('trigger', '1/a', ['new']), ('run', 2)], '1/d', (2,), []),
    # the instance finished in flow 1 and is pooled again in flow 2 only
    ('fan', [('run', 1), ('trigger', '1/a', ['new']), ('run', 1)], '1/c', (1,), []),
]
QUICK_STATES = 64          # quick tier: this many of the states (seeded choice), one history each


def _candidates(gname, snap):
    g = GRAPHS[gname]
    ids = set(snap['pool']) | set(snap['db']['task_states'])
    leaf = _parse(g['lines'])[1][1]
    ids.add(f'{g["final"]}/{leaf}')                  # usually not spawned yet / never run
    return sorted(ids)


def _follow_ups(rnd, gname, n):
    """seeded operations after the enumerated removal: more removals at later states, re-runs"""
    ops = []
    for _ in range(n):
        r = rnd.random()
        if r < 0.35:
            ops.append(('run', rnd.randint(1, 2)))
        elif r < 0.5:
            ops.append(('trigger', _first(gname), rnd.choice([[], ['1'], ['2'], ['new']])))
        else:
            ops.append(('remove?', rnd.randrange(1000), rnd.choice(WEIGHTED)))
    return ops


async def _history(env, gname, ops, k, index, sel, follow, stats, bad, samples, wrap=False):
    """run one scheduler: prelude ops, k iterations, remove candidate #index with --flow sel, follow-ups.
    Returns the number of candidates at the explored state (None if the state was not reached)."""
    n_cand = None
    trace = []
    async with _Run(env, gname) as run:
        try:
            for op in ops:
                trace.append(list(op))
                await run.do(op)
            trace.append(['run', k])
            await run.do(('run', k))
            steps = [('remove?', index, sel)] + list(follow)
            for step_no, op in enumerate(steps):
                if op[0] != 'remove?':
                    trace.append(list(op))
                    await run.do(op)
                    continue
                pre = run.snap()
                cands = _candidates(gname, pre)
                if isinstance(op[1], str):
                    cands = [op[1]]                       # directed scenario: the instance is named
                elif step_no == 0:
                    n_cand = len(cands)
                    if index >= n_cand and not wrap:
                        return n_cand
                tid = cands[op[1] % len(cands)] if not isinstance(op[1], str) else op[1]
                trace.append(['remove', tid, list(op[2])])
                await run.do(('remove', tid, op[2]))
                post = run.snap()
                problems, facts = _contract(run, gname, pre, post, tid, op[2])
                stats['evaluations'] += 1
                stats['distinct'].add(hashlib.md5(repr((
                    gname, {i: _brief(t) for i, t in sorted(pre['pool'].items())},
                    sorted((i, [r[:4] for r in rows]) for i, rows in pre['db']['task_states'].items()),
                    tid, tuple(op[2]))).encode()).hexdigest())
                for key in ('unset', 'kept_forced', 'kept_other', 'child_removed', 'child_stays', 'free'):
                    stats[key] += facts[key]
                stats['noop'] += facts['noop']
                stats['partial'] += bool(facts['removed_flows']) and tid in post['pool']
                stats['finished_target'] += bool(facts['removed_flows']) and not facts['in_pool']
                stats['multi_flow'] += any(len(t['flows']) > 1 for t in pre['pool'].values())
                group = facts['domain']
                stats['n_' + group] += 1
                if problems:
                    stats['failed_' + group] += 1
                    # keep witnesses of every distinct kind of disagreement (<= 3 each, <= 12 in all)
                    sig = (group,) + tuple(sorted({(p['clause'], p['what']) for p in problems}))
                    stats['kinds'][sig] = stats['kinds'].get(sig, 0) + 1
                    if stats['kinds'][sig] <= 3 and len(bad[group]) < 12:
                        bad[group].append(dict(
                            graph=GRAPHS[gname]['lines'], history=list(trace), removed=tid, flow=list(op[2]),
                            problems=problems[:4],
                            removed_task_before=dict(
                                pool=_brief(pre['pool'].get(tid)),
                                task_states=[[list(r[0])] + list(r[1:3])
                                             for r in pre['db']['task_states'].get(tid, [])]),
                            pool_before={i: _brief(t) for i, t in pre['pool'].items() if i != tid}))
                elif len(samples[group]) < 3 and (facts['unset'] or group != 'main'):
                    samples[group].append(dict(graph=GRAPHS[gname]['lines'], history=list(trace), facts=facts))
        except _Ended:
            stats['ended'] += 1
    return n_cand


def _states(tier):
    out = []
    for g in GRAPHS:
        kmax = 4 if tier != 'quick' and GRAPHS[g]['final'] > 1 else 3
        out += [(g, pname, ops, k) for pname, ops in _preludes(g, tier) for k in range(kmax + 1)]
    return out


async def _explore(env, tier, seed, stats, bad, samples, deadline):
    import random
    import time
    rnd = random.Random(seed)
    for gname, ops, tid, sel, more in DIRECTED:
        await _history(env, gname, ops, 0, tid, sel, more, stats, bad, samples)
        stats['histories'] += 1
    states = _states(tier)
    rnd.shuffle(states)
    if tier == 'quick':
        states = states[:QUICK_STATES]
    for state_no, (gname, _pname, ops, k) in enumerate(states):
        if time.time() > deadline:
            stats['cut'] += 1
            continue
        stats['states'] += 1
        if tier == 'quick':
            # one seeded (instance, selection) pair per state
            await _history(env, gname, ops, k, rnd.randrange(1000), rnd.choice(WEIGHTED),
                           _follow_ups(rnd, gname, 7), stats, bad, samples, wrap=True)
            stats['histories'] += 1
            continue
        # thorough: every instance of the state, the selection rotating through SELECTIONS
        index, n_cand = 0, 1
        while index < n_cand and time.time() <= deadline:
            sel = WEIGHTED[(state_no + index) % len(WEIGHTED)]
            got = await _history(env, gname, ops, k, index, sel, _follow_ups(rnd, gname, 4),
                                 stats, bad, samples)
            stats['histories'] += 1
            n_cand = got if got is not None else 0
            index += 1


# ----------------------------------------------------------------------------------------------------------
# (2) dynamically: erased history lets the task run again
async def _rerun_case(env, gname, tid, sel, remove):
    """run to quiescence, optionally remove tid, re-run one of its parents in flow 1; -> jobs gained per task"""
    async with _Run(env, gname) as run:
        await run.do(('run', 5))
        pre = run.snap()
        if tid in pre['pool'] or tid not in pre['db']['task_jobs']:
            return None
        parents = sorted(p for p in _parents(gname, tid) if p not in pre['pool'] and p in pre['db']['task_jobs'])
        if not parents:
            return None
        dropped = []
        if remove:
            await run.do(('remove', tid, sel))
            dropped = sorted(set(pre['pool']) - set(run.snap()['pool']))     # children stood down with it
        await run.do(('trigger', parents[0], ['1']))
        await run.do(('run', 4))
        post = run.snap()
        gained = {}
        for key in post['db']['task_jobs']:
            new = [r for r in post['db']['task_jobs'][key] if r not in pre['db']['task_jobs'].get(key, [])]
            if new:
                gained[key] = dict(submit_nums=sorted(r[1] for r in new),
                                   old_max=max([r[1] for r in pre['db']['task_jobs'].get(key, [])], default=0))
        return dict(parent=parents[0], gained=gained, in_pool=sorted(post['pool']), dropped_children=dropped,
                    finished_before=sorted(k for k in pre['db']['task_jobs'] if k not in pre['pool']))


async def _rerun(env, tier, bad, samples):
    n = 0
    graphs = ['chain', 'fan', 'cycle'] if tier == 'quick' else ['chain', 'fan', 'cycle', 'orjoin', 'fail']
    for gname in graphs:
        g = GRAPHS[gname]
        names = sorted({rhs for _, rhs, su in _parse(g['lines']) if not su})
        for tid in [f'{p}/{nm}' for p in range(1, g['final'] + 1) for nm in names]:
            for sel in ((), (1,)) if tier != 'quick' else ((),):
                control = await _rerun_case(env, gname, tid, sel, remove=False)
                if control is None:
                    break
                res = await _rerun_case(env, gname, tid, sel, remove=True)
                n += 1
                parent = control['parent']
                problems = []
                extra = set(control['gained']) - {parent}
                if extra:
                    problems.append(dict(what='control: without a removal a finished task ran again',
                                         tasks=sorted(extra)))
                if tid not in res['gained'] and tid not in res['in_pool']:
                    problems.append(dict(what='the removed task was not re-spawned by its re-run parent'))
                elif tid in res['gained']:
                    gain = res['gained'][tid]
                    if min(gain['submit_nums']) <= gain['old_max']:
                        problems.append(dict(what='the re-run reused a submit number', **gain))
                lost = [c for c in res['dropped_children']
                        if c not in res['in_pool'] and c not in res['gained']]
                if lost and tid in res['gained']:
                    problems.append(dict(what='children stood down by the removal did not come back when the '
                                              'removed task ran again', children=lost))
                siblings = (_children(gname, parent) - {tid}) & set(res['finished_before'])
                again = sorted(s for s in siblings if s in res['gained'])
                if again:
                    problems.append(dict(what='un-removed finished siblings ran again', tasks=again))
                if problems and len(bad) < 12:
                    bad.append(dict(graph=g['lines'], history=[['run', 5], ['remove', tid, list(sel)],
                                                               ['trigger', parent, ['1']], ['run', 4]],
                                    problems=problems, with_removal=res, control=control))
                elif not problems and len(samples) < 2:
                    samples.append(dict(graph=g['lines'], removed=tid, flow=list(sel), rerun_parent=parent,
                                        jobs_gained=res['gained']))
    return n


# ----------------------------------------------------------------------------------------------------------
# (6) Prerequisite.unset_naturally_satisfied on systematic small states
VALUES = [False, 'satisfied naturally', 'satisfied from database', 'satisfied by skip mode', FORCED]
KEYS = [('1', 'a', 'succeeded'), ('1', 'b', 'succeeded'), ('1', 'a', 'failed'), ('2', 'a', 'succeeded'),
        ('11', 'a', 'succeeded'), ('1', 'ab', 'succeeded')]
IDS = ['1/a', '1/b', '2/a', '11/a', '1/ab', '1/zz']


def _unit(tier, bad, samples):
    from cylc.flow.cycling.integer import IntegerPoint
    from cylc.flow.prerequisite import Prerequisite
    n, distinct = 0, 0
    for nkeys in (1, 2, 3):
        for keys in itertools.combinations(KEYS[:3] + KEYS[5:] if tier == 'quick' and nkeys == 3 else KEYS, nkeys):
            msgs = [f'{k[0]}/{k[1]} {k[2]}' for k in keys]
            exprs = [None, '|'.join(msgs)]
            if nkeys == 3:
                exprs += [f'{msgs[0]}&({msgs[1]}|{msgs[2]})', f'({msgs[0]}&{msgs[1]})|{msgs[2]}']
            for values in itertools.product(VALUES, repeat=nkeys):
                distinct += 1
                for expr, warm, id_ in itertools.product(exprs, (True, False), IDS):
                    pre = Prerequisite(IntegerPoint('3'))
                    for k, v in zip(keys, values):
                        pre[k] = v
                    if expr:
                        pre.set_conditional_expr(expr)
                    if warm:
                        pre.is_satisfied()
                    model = {f'{k[0]}/{k[1]}:{k[2]}': v for k, v in zip(keys, values)}
                    exp, exp_changed = dict(model), False
                    for key, v in model.items():
                        if key.rsplit(':', 1)[0] == id_ and v and v != FORCED:
                            exp[key] = False
                            exp_changed = True
                    ret = pre.unset_naturally_satisfied(id_)
                    got = {f'{k.point}/{k.task}:{k.output}': v for k, v in pre.items()}
                    sat = pre.is_satisfied()
                    fresh = _evaluate(expr, exp)
                    n += 1
                    if (got != exp or bool(ret) != exp_changed or bool(sat) != fresh) and len(bad) < 12:
                        bad.append(dict(entries=model, expression=expr, cache_warm=warm, unset=id_,
                                        got=got, expected=exp, returned=ret, expected_return=exp_changed,
                                        is_satisfied=bool(sat), fresh_evaluation=fresh))
                    elif len(samples) < 2 and exp_changed and nkeys == 3 and expr and FORCED in values:
                        samples.append(dict(entries=model, expression=expr, unset=id_, after=got))
    return n, distinct


# ----------------------------------------------------------------------------------------------------------
# classifiers for the two disagreements found when this module was written (see the final report)
def _witness_flows(witness):
    before = witness.get('removed_task_before') or {}
    pool = set((before.get('pool') or {}).get('flows', []))
    db = set()
    for row in before.get('task_states') or []:
        db.update(row[0])
    return set(witness.get('flow', [])), pool, db


def kf_pooled_in_other_flow_blocks_removal(witness, res):
    """known finding: `cylc remove T --flow=n` does nothing at all (history of T in flow n kept, children not
    stood down) when T finished in flow n and a newer instance of T is in the pool in other flows only:
    _remove_matched_tasks `continue`s past the database and downstream handling"""
    sel, pool, db = _witness_flows(witness)
    return bool(sel) and bool(pool) and not (pool & sel) and bool(db & sel)


def kf_flow_never_in_unsets_child(witness, res):
    """known finding: `cylc remove T --flow=n` where T never was in flow n still unsets the prerequisite
    entries on T of a child that is (also) in flow n, and logs T as removed from flow n"""
    sel, pool, db = _witness_flows(witness)
    # (the child whose entry is unset must itself be in a selected flow: a child in other flows only is NOT
    # this finding - the code skips it - and stays a violation)
    return bool(sel) and not ((pool | db) & sel) and all(
        p.get('what') in ('prereqs entries', 'suicide entries', 'nothing was removed but the pool changed')
        and (p.get('clause') != 3 or bool(set(p.get('task_flows') or []) & sel))
        for p in witness.get('problems', []))


def check(tier='quick', seed=0):
    import asyncio
    import threading
    import time
    t0 = time.time()
    stats = dict(evaluations=0, distinct=set(), histories=0, states=0, cut=0, ended=0, kinds={}, unset=0,
                 kept_forced=0, kept_other=0, child_removed=0, child_stays=0, free=0, noop=0, partial=0,
                 finished_target=0, multi_flow=0, n_main=0, n_nothing=0, n_elsewhere=0, failed_main=0,
                 failed_nothing=0, failed_elsewhere=0)
    bad_a, bad_b, bad_c = dict(main=[], nothing=[], elsewhere=[]), [], []
    sam_a, sam_b, sam_c = dict(main=[], nothing=[], elsewhere=[]), [], []
    n_rerun, err = 0, None
    n_unit = n_unit_distinct = 0
    threads_before = threading.active_count()
    try:
        with _Env() as env:
            n_unit, n_unit_distinct = _unit(tier, bad_c, sam_c)

            async def main():
                nonlocal n_rerun
                n_rerun = await _rerun(env, tier, bad_b, sam_b)
                await _explore(env, tier, seed, stats, bad_a, sam_a,
                               deadline=t0 + (75 if tier == 'quick' else 780))
            asyncio.run(main())
    except Exception as exc:                # noqa: BLE001 - harness failure => unknown
        import traceback
        err = f'{type(exc).__name__}: {exc} @ {traceback.format_exc().strip().splitlines()[-3:]}'
    stray = threading.active_count() - threads_before

    res = []
    # --- A: removal contract on real schedulers (two results: pool effects / history rows)
    n_states = len(_states(tier))
    rule = (f'real Scheduler in simulation mode on {len(GRAPHS)} generated integer-cycling graphs '
            f'({", ".join(GRAPHS)}: chain, fan, and-join + second arrow, or-join, a[-P1] => a, optional failed '
            'output, suicide trigger, a running child; slow tasks keep children waiting); states = prelude (none / '
            'trigger 1/a '
            'in a new flow after 1 or 2 iterations / trigger 1/a in flows 1,2 / cylc set --pre on a child'
            + ('' if tier == 'quick' else ' / cylc set --out on the slow task / new flow from cycle 2 / set --pre '
               'then new flow') + ') then k <= 3 (4 for the multi-cycle graphs in the thorough tier) main loop '
            f'iterations = {n_states} states; removal of one instance (pooled, finished, or never run) with '
            '--flow in {all, 1, 2, 1+2, 3}: '
            + (f'one seeded (instance, flow) pair for each of {QUICK_STATES} seeded states' if tier == 'quick' else
               'every instance of every state, the selection rotating through all, all, all, 1, 1, 2, 2, 1+2, 3')
            + f', each followed by {7 if tier == "quick" else 4} seeded (seed {seed}) further removals / '
            f're-triggers / iterations, every removal checked the same way; plus {len(DIRECTED)} directed '
            'histories (forced vs natural entries, two flows, or-join, suicide, running / failed instance).  '
            'NOT exercised: several IDs or globs in '
            'one command, families, xtriggers, live jobs, restart (satisfied from database), reload, flow=none, '
            'datetime cycling, the data store')
    cov = {k: stats[k] for k in ('histories', 'states', 'cut', 'ended', 'unset', 'kept_forced', 'kept_other',
                                 'free', 'child_removed', 'child_stays', 'noop', 'partial', 'finished_target',
                                 'multi_flow')}
    quick = tier == 'quick'
    thin = (err or stats['cut'] > n_states // 10 or not all(
        stats[k] for k in ('unset', 'kept_forced', 'kept_other', 'child_removed', 'child_stays', 'noop',
                           'partial', 'finished_target', 'multi_flow')))
    # every checked removal is reported under exactly one of three results (all clauses are checked in each)
    for group, want, name in (
            ('main', 90 if quick else 1000,
             'bounded::every cylc remove that has something to remove (the instance is pooled in a selected flow, '
             'or finished in one and not pooled) takes exactly those flows off the instance and its history rows, '
             'unsets exactly the non-forced prerequisite entries of its children on it, drops exactly the waiting '
             'children left with nothing satisfied, and leaves all other tasks alone'),
            ('nothing', 60 if quick else 600,
             'bounded::a cylc remove naming only flows the instance was never in (or an instance that never ran) '
             'changes nothing in the pool or the database'),
            ('elsewhere', 3 if quick else 15,
             'bounded::a cylc remove of the flows an instance finished in works the same (history erased, children '
             'stood down) while a newer instance of the task is pooled in other flows only')):
        n_here = stats['n_' + group]
        base = dict(name=name, kind='bounded', evaluations=n_here, distinct=n_here, rule=rule,
                    samples=sam_a[group], exhaustive=False)
        if group == 'main':
            base['distinct'] = len(stats['distinct'])
            base['rule'] += (f'.  {stats["evaluations"]} removals were checked in all, {len(stats["distinct"])} '
                             'distinct (state, instance, selection) triples; this result and the next two '
                             'partition them')
        if bad_a[group]:
            kinds = {' + '.join(f'({c}) {w}' for c, w in sig[1:]): n
                     for sig, n in stats['kinds'].items() if sig[0] == group}
            res.append(dict(base, verdict='refuted', witness=bad_a[group],
                            detail=f'{stats["failed_" + group]} of {n_here} removals break a clause; '
                                   f'kinds of disagreement: {kinds}; coverage {cov}'))
        elif thin or n_here < want:
            res.append(dict(base, verdict='unknown',
                            detail=f'explored too little ({n_here} < {want}?) or harness error: {err}; {cov}'))
        else:
            res.append(dict(base, verdict='proved', detail=f'{n_here} removals checked; {cov}'))
    # --- B: run again
    name = ('bounded::after removing a finished task, re-running its parent makes it run again with a new submit '
            'number while its un-removed finished siblings (and, without the removal, everything) do not')
    rule = ('graphs ' + ('chain, fan, cycle' if tier == 'quick' else 'chain, fan, cycle, orjoin, fail')
            + ': 5 iterations to quiescence, each finished non-root instance removed ('
            + ('all flows' if tier == 'quick' else 'all flows / --flow=1')
            + '), first finished parent re-triggered in flow 1, 4 iterations; compared with the same history '
            'without the removal')
    base = dict(name=name, kind='bounded', evaluations=n_rerun, distinct=n_rerun, rule=rule, samples=sam_b,
                exhaustive=True)
    if bad_b:
        res.append(dict(base, verdict='refuted', witness=bad_b, detail=f'{len(bad_b)} cases'))
    elif err or n_rerun < (5 if tier == 'quick' else 10):
        res.append(dict(base, verdict='unknown', detail=f'only {n_rerun} cases ran; {err}'))
    else:
        res.append(dict(base, verdict='proved', detail=f'{n_rerun} removal / control pairs'))
    # --- C: unit
    name = ('bounded::Prerequisite.unset_naturally_satisfied resets exactly the non-forced satisfied entries of '
            'the named task, reports whether it did, and leaves no stale cached satisfaction')
    rule = ('every choice of <= 3 of 6 entries (same task different output, other cycle, look-alike ids 11/a and '
            '1/ab' + ('; triples from 4 of the 6 only' if quick else '') + '), every assignment of the 5 '
            'satisfaction values, expression in {conjunction, all-or, a&(b|c), (a&b)|c}, cache warm / cold, 6 ids '
            'to unset (one absent)')
    base = dict(name=name, kind='bounded', evaluations=n_unit, distinct=n_unit_distinct, rule=rule,
                samples=sam_c, exhaustive=True)
    if bad_c:
        res.append(dict(base, verdict='refuted', witness=bad_c, detail=f'{len(bad_c)}+ states'))
    elif n_unit < (30000 if quick else 120000):
        res.append(dict(base, verdict='unknown', detail=f'only {n_unit} evaluations; {err}'))
    else:
        res.append(dict(base, verdict='proved', detail=f'{n_unit} calls'))
    if stray > 0:
        for r in res:
            r['detail'] += f' [warning: {stray} thread(s) left]'
    for r in res:
        r['detail'] += f' [{round(time.time() - t0)} s]'
    return res
