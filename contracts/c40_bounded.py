"""C40 — workflow-state queries match exactly what was recorded.  BOUNDED stand-in, not a proof.

workflow_state_query builds an SQL statement and hands it to SQLite; what `LIKE` / `GLOB` / `==` do
is SQLite's semantics, not code of /repo (the planned proof was "relative to a stated model of LIKE",
which is exactly the part that turned out to be wrong: DESIGN 6, F9).  The contract

    ensures  set of (name, cycle) returned
             == { recorded (name, cycle, status, flows) | match(task, name) and match(cycle, cycle')
                  and (selector is None or status == selector) and (flow is None or flow in flows) }
    where match(pattern, text): '*' matches any sequence of characters, every other character
    matches only itself, case-sensitively

is checked at run time on the REAL method against a real in-memory SQLite database, for every pattern
of the stated vocabulary against tables of recorded instances chosen for near-misses (case, '_', '%')."""
import itertools
import re
import sqlite3

NAMES = ['foo_1', 'FOO_1', 'fooX1', 'foo%1', 'foo', 'Foo', 'bar', 'foo_1x', '_', 'a%b']
CYCLES = ['1', '10', '2000', '20000101T0000Z', '20000101t0000z']
TASK_PATTERNS = [None, 'foo_1', 'foo_*', 'foo*', '*_1', 'FOO*', '*', 'fo*1', 'foo%1', 'foo%*', '*%*', '_',
                 'bar', '*o*', 'Foo']
CYCLE_PATTERNS = [None, '1', '1*', '*', '2000*', '20000101T*', '*Z']


def _match(pattern, text):
    if pattern is None:
        return True
    return re.fullmatch('.*'.join(re.escape(p) for p in pattern.split('*')), text) is not None


def _mk_checker(rows):
    from cylc.flow.dbstatecheck import CylcWorkflowDBChecker
    conn = sqlite3.connect(':memory:')
    conn.execute('CREATE TABLE task_states(name TEXT, cycle TEXT, flow_nums TEXT, time_created TEXT, '
                 'time_updated TEXT, submit_num INTEGER, status TEXT, flow_wait INTEGER, '
                 'is_manual_submit INTEGER, PRIMARY KEY(name, cycle, flow_nums))')
    conn.executemany('INSERT INTO task_states VALUES(?,?,?,?,?,?,?,?,?)',
                     [(n, c, f, '', '', 1, s, 0, 0) for n, c, s, f in rows])
    chk = CylcWorkflowDBChecker.__new__(CylcWorkflowDBChecker)
    chk.conn = conn
    chk.c7_back_compat_mode = False
    return chk


def kf_like(witness, res):
    """(kept for reference; the LIKE defect was repaired, see known_findings.json `fixed`)"""
    return False


def check(tier='quick', seed=0):
    rows = []
    for i, (n, c) in enumerate(itertools.product(NAMES, CYCLES)):
        status = ['succeeded', 'failed', 'waiting'][i % 3]
        flows = ['[1]', '[2]', '[1, 2]'][(i // 3) % 3]
        rows.append((n, c, status, flows))
    chk = _mk_checker(rows)
    n_eval, bad, samples, distinct = 0, [], [], set()
    selectors = [None, 'succeeded']
    flows = [None, 1, 2]
    for tp, cp, sel, fl in itertools.product(TASK_PATTERNS, CYCLE_PATTERNS, selectors, flows):
        n_eval += 1
        want = sorted((n, c) for n, c, s, f in rows
                      if _match(tp, n) and _match(cp, c) and (sel is None or s == sel)
                      and (fl is None or fl in eval(f)))      # noqa: S307 - literal list text of this file
        try:
            got = sorted((r[0], r[1]) for r in chk.workflow_state_query(
                task=tp, cycle=cp, selector=sel, flow_num=fl))
        except Exception as ex:     # noqa: BLE001
            bad.append(dict(task=tp, cycle=cp, selector=sel, flow=fl, error=repr(ex)))
            continue
        distinct.add(tuple(got))
        if got != want and len(bad) < 8:
            bad.append(dict(task=tp, cycle=cp, selector=sel, flow=fl,
                            unexpected=[x for x in got if x not in want][:6],
                            missing=[x for x in want if x not in got][:6]))
        if len(samples) < 3 and tp and '*' in tp and got:
            samples.append(dict(task=tp, cycle=cp, returned=len(got)))
    name = ('bounded::workflow_state_query returns exactly the recorded instances that match '
            '(* = any sequence, every other character literal and case-sensitive; status; flow)')
    rule = (f'{len(TASK_PATTERNS)} task patterns x {len(CYCLE_PATTERNS)} cycle patterns x status selector x flow, '
            f'against {len(rows)} recorded instances whose names differ by case, "_" and "%"; '
            'distinct = distinct result sets')
    base = dict(name=name, kind='bounded', evaluations=n_eval, distinct=len(distinct), rule=rule,
                samples=samples, exhaustive=True)
    if bad:
        return [dict(base, verdict='refuted', witness=bad, detail='query result differs from the recorded matches')]
    return [dict(base, verdict='proved', detail=f'{n_eval} queries')]
