"""C18 — cycle point / interval algebra (integer cycling), proved against the
real bodies in cylc/flow/cycling/__init__.py and cylc/flow/cycling/integer.py.

View: a point p is seen as ipt(p) = int(p.value); an interval i as
iiv(i) = int(i.value.replace('P', '')).  Every method is proved to compute on
that view; the lemmas at the end are small client programs over those
contracts (trichotomy, round trip, hash consistency, idempotence)."""
from pyvc.spec import contract, schema, spec, implies, iff, forall, exists, int_text

schema('IntegerPoint', 'cylc.flow.cycling.integer:IntegerPoint', fields={'value': 'str'})
schema('IntegerInterval', 'cylc.flow.cycling.integer:IntegerInterval', fields={'value': 'str'})

from cylc.flow.cycling.integer import REC_INTERVAL, REC_RELATIVE_POINT  # noqa: E402,F401

M = 'cylc.flow.cycling.integer:'
B = 'cylc.flow.cycling:'


@spec
def ipt(p):
    """Integer view of a point."""
    return int(p.value)


@spec
def pt_ok(p):
    return int_text(p.value)


@spec
def iiv(i):
    """Integer view of an interval: int(value with the P removed)."""
    return int(i.value.replace('P', ''))


@spec
def iv_ok(i):
    return int_text(i.value.replace('P', ''))


@spec
def sign(n):
    return 0 if n == 0 else (-1 if n < 0 else 1)


@spec
def canonical_pt(p):
    return pt_ok(p) and p.value == str(ipt(p))


contract(B + 'cmp',
         sorts={'self': 'int', 'other': 'int', 'result': 'int'},
         ensures={'sign': 'result == sign(self - other)'},
         pure=True, props=['C18'])

# ------------------------------------------------------------------ IntegerPoint
contract(M + 'IntegerPoint.__int__',
         sorts={'self': 'IntegerPoint', 'result': 'int'},
         raises={'ValueError': 'not pt_ok(self)'},
         ensures={'view': 'result == ipt(self)'},
         pure=True, props=['C18'])

contract(M + 'IntegerPoint.add',
         sorts={'self': 'IntegerPoint', 'other': 'IntegerInterval', 'result': 'IntegerPoint'},
         requires=['pt_ok(self)', 'iv_ok(other)'],
         ensures={'view': 'ipt(result) == ipt(self) + iiv(other)', 'ok': 'canonical_pt(result)'},
         fresh=True, props=['C18'])

contract(M + 'IntegerPoint.sub', variant='point',
         sorts={'self': 'IntegerPoint', 'other': 'IntegerPoint', 'result': 'IntegerInterval'},
         requires=['pt_ok(self)', 'pt_ok(other)'],
         ensures={'view': 'iiv(result) == ipt(self) - ipt(other)', 'ok': 'iv_ok(result)'},
         fresh=True, props=['C18'])

contract(M + 'IntegerPoint.sub', variant='interval',
         sorts={'self': 'IntegerPoint', 'other': 'IntegerInterval', 'result': 'IntegerPoint'},
         requires=['pt_ok(self)', 'iv_ok(other)'],
         ensures={'view': 'ipt(result) == ipt(self) - iiv(other)', 'ok': 'canonical_pt(result)'},
         fresh=True, props=['C18'])

contract(M + 'IntegerPoint._cmp',
         sorts={'self': 'IntegerPoint', 'other': 'IntegerPoint', 'result': 'int'},
         requires=['pt_ok(self)', 'pt_ok(other)'],
         ensures={'sign': 'result == sign(ipt(self) - ipt(other))'},
         pure=True, props=['C18'])

contract(M + 'IntegerPoint.standardise',
         sorts={'self': 'IntegerPoint', 'allow_truncated': 'bool', 'result': 'IntegerPoint'},
         raises={'PointParsingError': 'not pt_ok(self)'},
         ensures={'same-object': 'result is self',
                  'value-preserved': 'ipt(self) == old(ipt(self))',
                  'canonical': 'canonical_pt(self)',
                  'idempotent': 'implies(old(canonical_pt(self)), self.value == old(self.value))'},
         modifies=['self.value'], props=['C18'])

# generic ordering plumbing of PointBase, instantiated for IntegerPoint
for _m, _post in [('__lt__', 'result == (ipt(self) < ipt(other))'),
                  ('__le__', 'result == (ipt(self) <= ipt(other))'),
                  ('__gt__', 'result == (ipt(self) > ipt(other))'),
                  ('__ge__', 'result == (ipt(self) >= ipt(other))')]:
    contract(B + 'PointBase.' + _m, variant='int',
             sorts={'self': 'IntegerPoint', 'other': 'IntegerPoint', 'result': 'bool'},
             requires=['pt_ok(self)', 'pt_ok(other)'],
             ensures={'order': _post}, pure=True, props=['C18'])
    contract(B + 'PointBase.' + _m, variant='none',
             sorts={'self': 'IntegerPoint', 'other': 'none', 'result': 'bool'},
             requires=['pt_ok(self)'],
             # "None compares greater than any point": cmp is -1
             ensures={'none-is-greater': 'result == %s' % (_m in ('__lt__', '__le__'))},
             pure=True, props=['C18'])

contract(B + 'PointBase.__cmp__', variant='int',
         sorts={'self': 'IntegerPoint', 'other': 'IntegerPoint', 'result': 'int'},
         requires=['pt_ok(self)', 'pt_ok(other)'],
         ensures={'sign': 'result == sign(ipt(self) - ipt(other))'},
         pure=True, props=['C18'])
contract(B + 'PointBase.__cmp__', variant='none',
         sorts={'self': 'IntegerPoint', 'other': 'none', 'result': 'int'},
         ensures={'none': 'result == -1'}, pure=True, props=['C18'])

contract(B + 'PointBase.__eq__', variant='int',
         sorts={'self': 'IntegerPoint', 'other': 'IntegerPoint', 'result': 'bool'},
         requires=['pt_ok(self)', 'pt_ok(other)'],
         ensures={'eq': 'result == (ipt(self) == ipt(other))'},
         pure=True, props=['C18'])

contract(B + 'PointBase.__hash__', variant='int',
         sorts={'self': 'IntegerPoint', 'result': 'int'},
         ensures={'hash-of-value': 'result == hash(self.value)'},
         pure=True, props=['C18'])

contract(B + 'PointBase.__sub__', variant='int-point',
         sorts={'self': 'IntegerPoint', 'other': 'IntegerPoint', 'result': 'IntegerInterval'},
         requires=['pt_ok(self)', 'pt_ok(other)'],
         ensures={'view': 'iiv(result) == ipt(self) - ipt(other)', 'ok': 'iv_ok(result)'},
         fresh=True, props=['C18'])
contract(B + 'PointBase.__sub__', variant='int-interval',
         sorts={'self': 'IntegerPoint', 'other': 'IntegerInterval', 'result': 'IntegerPoint'},
         requires=['pt_ok(self)', 'iv_ok(other)'],
         ensures={'view': 'ipt(result) == ipt(self) - iiv(other)', 'ok': 'canonical_pt(result)'},
         fresh=True, props=['C18'])
contract(B + 'PointBase.__add__', variant='int',
         sorts={'self': 'IntegerPoint', 'other': 'IntegerInterval', 'result': 'IntegerPoint'},
         requires=['pt_ok(self)', 'iv_ok(other)'],
         ensures={'view': 'ipt(result) == ipt(self) + iiv(other)', 'ok': 'canonical_pt(result)'},
         fresh=True, props=['C18'])

# ------------------------------------------------------------------ IntegerInterval
contract(M + 'IntegerInterval.__int__',
         sorts={'self': 'IntegerInterval', 'result': 'int'},
         raises={'ValueError': 'not iv_ok(self)'},
         ensures={'view': 'result == iiv(self)'},
         pure=True, props=['C18'])

contract(M + 'IntegerInterval.__init__',
         sorts={'self': 'IntegerInterval', 'value': 'str'},
         raises={'IntervalParsingError': 'REC_INTERVAL.search(value) is None'},
         ensures={'stored': 'self.value == value'},
         # a fact about strings, not about the code: text matching ^[-+]?P\d+$ is integer
         # text once the P is removed, non-negative unless it starts with '-'.
         # Checked natively by the differential run, assumed at call sites.
         trusted_ensures={'shape': "iv_ok(self) and (iiv(self) < 0) == "
                                   "(value.startswith('-') and iiv(self) != 0)"},
         modifies=['self.value'], props=['C18'])

contract(M + 'IntegerInterval.from_integer', variant='int',
         sorts={'cls': 'IntegerInterval', 'integer': 'int', 'result': 'IntegerInterval'},
         ensures={'view': 'iiv(result) == integer', 'ok': 'iv_ok(result)'},
         fresh=True, props=['C18'])

contract(M + 'IntegerInterval.from_integer', variant='float',
         sorts={'cls': 'IntegerInterval', 'integer': 'float', 'result': 'IntegerInterval'},
         # str(<float>) is never "P<digits>": construction is rejected (this is what
         # makes a true division in a caller visible: C16/F1)
         raises={'IntervalParsingError': 'True'},
         fresh=True, props=['C18'])

contract(M + 'IntegerInterval.get_null',
         sorts={'cls': 'IntegerInterval', 'result': 'IntegerInterval'},
         ensures={'zero': 'iiv(result) == 0', 'ok': 'iv_ok(result)'},
         fresh=True, props=['C18'])

contract(M + 'IntegerInterval.add', variant='interval',
         sorts={'self': 'IntegerInterval', 'other': 'IntegerInterval', 'result': 'IntegerInterval'},
         requires=['iv_ok(self)', 'iv_ok(other)'],
         ensures={'view': 'iiv(result) == iiv(self) + iiv(other)', 'ok': 'iv_ok(result)'},
         fresh=True, props=['C18'])
contract(M + 'IntegerInterval.add', variant='point',
         sorts={'self': 'IntegerInterval', 'other': 'IntegerPoint', 'result': 'IntegerPoint'},
         requires=['iv_ok(self)', 'pt_ok(other)'],
         ensures={'view': 'ipt(result) == iiv(self) + ipt(other)', 'ok': 'canonical_pt(result)'},
         fresh=True, props=['C18'])
contract(M + 'IntegerInterval.sub', variant='interval',
         sorts={'self': 'IntegerInterval', 'other': 'IntegerInterval', 'result': 'IntegerInterval'},
         requires=['iv_ok(self)', 'iv_ok(other)'],
         ensures={'view': 'iiv(result) == iiv(self) - iiv(other)', 'ok': 'iv_ok(result)'},
         fresh=True, props=['C18'])
contract(M + 'IntegerInterval._cmp',
         sorts={'self': 'IntegerInterval', 'other': 'IntegerInterval', 'result': 'int'},
         requires=['iv_ok(self)', 'iv_ok(other)'],
         ensures={'sign': 'result == sign(iiv(self) - iiv(other))'},
         pure=True, props=['C18'])
contract(M + 'IntegerInterval.__abs__',
         sorts={'self': 'IntegerInterval', 'result': 'IntegerInterval'},
         requires=['iv_ok(self)'],
         ensures={'view': 'iiv(result) == abs(iiv(self))', 'ok': 'iv_ok(result)'},
         fresh=True, props=['C18'])
contract(M + 'IntegerInterval.__mul__',
         sorts={'self': 'IntegerInterval', 'factor': 'int', 'result': 'IntegerInterval'},
         requires=['iv_ok(self)'],
         ensures={'view': 'iiv(result) == iiv(self) * factor', 'ok': 'iv_ok(result)'},
         fresh=True, props=['C18'])
contract(M + 'IntegerInterval.__bool__',
         sorts={'self': 'IntegerInterval', 'result': 'bool'},
         requires=['iv_ok(self)'],
         ensures={'nonzero': 'result == (iiv(self) != 0)'},
         pure=True, props=['C18'])
contract(B + 'IntervalBase.__neg__', variant='int',
         sorts={'self': 'IntegerInterval', 'result': 'IntegerInterval'},
         requires=['iv_ok(self)'],
         ensures={'view': 'iiv(result) == -iiv(self)', 'ok': 'iv_ok(result)'},
         fresh=True, props=['C18'])

for _m, _post in [('__lt__', 'result == (iiv(self) < iiv(other))'),
                  ('__le__', 'result == (iiv(self) <= iiv(other))'),
                  ('__gt__', 'result == (iiv(self) > iiv(other))'),
                  ('__ge__', 'result == (iiv(self) >= iiv(other))')]:
    contract(B + 'IntervalBase.' + _m, variant='int',
             sorts={'self': 'IntegerInterval', 'other': 'IntegerInterval', 'result': 'bool'},
             requires=['iv_ok(self)', 'iv_ok(other)'],
             ensures={'order': _post}, pure=True, props=['C18'])
contract(B + 'IntervalBase.__cmp__', variant='int',
         sorts={'self': 'IntegerInterval', 'other': 'IntegerInterval', 'result': 'int'},
         requires=['iv_ok(self)', 'iv_ok(other)'],
         ensures={'sign': 'result == sign(iiv(self) - iiv(other))'},
         pure=True, props=['C18'])
contract(B + 'IntervalBase.__eq__', variant='int',
         sorts={'self': 'IntegerInterval', 'other': 'IntegerInterval', 'result': 'bool'},
         requires=['iv_ok(self)', 'iv_ok(other)'],
         ensures={'eq': 'result == (iiv(self) == iiv(other))'},
         pure=True, props=['C18'])
contract(B + 'IntervalBase.__add__', variant='int-interval',
         sorts={'self': 'IntegerInterval', 'other': 'IntegerInterval', 'result': 'IntegerInterval'},
         requires=['iv_ok(self)', 'iv_ok(other)'],
         ensures={'view': 'iiv(result) == iiv(self) + iiv(other)', 'ok': 'iv_ok(result)'},
         fresh=True, props=['C18'])
contract(B + 'IntervalBase.__sub__', variant='int-interval',
         sorts={'self': 'IntegerInterval', 'other': 'IntegerInterval', 'result': 'IntegerInterval'},
         requires=['iv_ok(self)', 'iv_ok(other)'],
         ensures={'view': 'iiv(result) == iiv(self) - iiv(other)', 'ok': 'iv_ok(result)'},
         fresh=True, props=['C18'])


# ------------------------------------------------------------------ lemmas (client programs)
def lemma_trichotomy(a, b):
    """Exactly one of a < b, a == b, a > b; and <=, >= agree."""
    lt, eq, gt = a < b, a == b, a > b
    return ((lt + eq + gt) == 1 and (a <= b) == (lt or eq) and (a >= b) == (gt or eq)
            and (b > a) == lt and (b == a) == eq)


def lemma_transitive(a, b, c):
    return (not (a <= b and b <= c)) or a <= c


def lemma_roundtrip(p, i):
    """Adding then subtracting an interval returns the original point (and the
    other way round)."""
    return ((p + i) - i) == p and ((p - i) + i) == p and ((p + i) - p) == i


def lemma_hash_standardised(a, b):
    """Equal standardised points hash equal."""
    return (not (a == b)) or hash(a) == hash(b)


def lemma_hash_all(a, b):
    """Equal points hash equal - for every constructible point."""
    return (not (a == b)) or hash(a) == hash(b)


def lemma_standardise_idempotent(p):
    p.standardise()
    v1 = p.value
    p.standardise()
    return p.value == v1


L = 'contracts.c18_points:'
_pp = {'a': 'IntegerPoint', 'b': 'IntegerPoint', 'c': 'IntegerPoint', 'result': 'bool'}
_pp2 = {'a': 'IntegerPoint', 'b': 'IntegerPoint', 'result': 'bool'}
contract(L + 'lemma_trichotomy', sorts=_pp2, requires=['pt_ok(a)', 'pt_ok(b)'],
         ensures={'holds': 'result'}, props=['C18'])
contract(L + 'lemma_transitive', sorts=_pp, requires=['pt_ok(a)', 'pt_ok(b)', 'pt_ok(c)'],
         ensures={'holds': 'result'}, props=['C18'])
contract(L + 'lemma_roundtrip',
         sorts={'p': 'IntegerPoint', 'i': 'IntegerInterval', 'result': 'bool'},
         requires=['pt_ok(p)', 'iv_ok(i)'], ensures={'holds': 'result'}, props=['C18'],
         modifies=[])
contract(L + 'lemma_hash_standardised', sorts=_pp2,
         requires=['canonical_pt(a)', 'canonical_pt(b)'],
         ensures={'holds': 'result'}, props=['C18'])
contract(L + 'lemma_hash_all', sorts=_pp2, requires=['pt_ok(a)', 'pt_ok(b)'],
         ensures={'holds': 'result'}, props=['C18'])
contract(L + 'lemma_standardise_idempotent',
         sorts={'p': 'IntegerPoint', 'result': 'bool'}, requires=['pt_ok(p)'],
         ensures={'holds': 'result'}, modifies=['p.value'], props=['C18'])


# ------------------------------------------------------------------ replay hooks
def _mkpoint(v):
    from cylc.flow.cycling.integer import IntegerPoint
    return IntegerPoint(str(v))


def _mkinterval(n):
    from cylc.flow.cycling.integer import IntegerInterval
    return IntegerInterval(('-P%d' % -n) if n < 0 else ('P%d' % n))


_NONCANON = ['0', '1', '01', '+1', '-0', '00', ' 1', '1 ', '-1', '-01', '2', '10', '1_0', '007']


def _ints_near(model):
    base = {0, 1, -1, 2, -2, 10, -10, -25, 7}
    for v in (model or {}).values():
        if isinstance(v, int) and not isinstance(v, bool) and abs(v) < 10 ** 9:
            base.update({v, v + 1, v - 1})
    return sorted(base)


def conc_points(nparams, strings=False):
    """Candidates: tuples of points over small ints (and non-canonical texts)."""
    import itertools

    def hook(model, oname):
        vals = _NONCANON if strings else [str(i) for i in _ints_near(model)][:12]
        for combo in itertools.product(vals, repeat=nparams):
            yield (dict(values=list(combo)),
                   (lambda combo=combo: ([_mkpoint(v) for v in combo], {})))
    return hook


def conc_point_interval(model, oname):
    import itertools
    ints = _ints_near(model)[:9]
    for a, b in itertools.product(ints, ints):
        yield (dict(point=a, interval=b), (lambda a=a, b=b: ([_mkpoint(a), _mkinterval(b)], {})))


def kf_noncanonical(desc, res):
    """Known finding C18/F7 covers exactly: two points whose texts differ but
    denote the same integer."""
    vals = desc.get('values') if isinstance(desc, dict) else None
    if not vals or len(vals) != 2:
        return False
    a, b = vals
    try:
        return a != b and int(a) == int(b)
    except ValueError:
        return False


from pyvc.spec import REG as _REG  # noqa: E402
for _k, _c in _REG.contracts.items():
    if not _k.startswith(('cylc.flow.cycling', 'contracts.c18_points')) or 'C18' not in _c.props:
        continue
    _ps = [n for n in _c.sorts if n != 'result']
    _kinds = [_c.sorts[n] for n in _ps]
    if _c.qualname.endswith('standardise') or 'idempotent' in _c.qualname:
        _c.concretise = conc_points(1, strings=True)
        continue
    if _kinds and all(k == 'IntegerPoint' for k in _kinds):
        _c.concretise = conc_points(len(_kinds), strings=_k.endswith('lemma_hash_all'))
    elif _kinds == ['IntegerPoint', 'IntegerInterval']:
        _c.concretise = conc_point_interval
