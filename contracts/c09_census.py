"""C09 census: TaskOutputs._completed is written only by add / set_message_complete
(and initialised in __init__), so a completed output can only be un-completed by
`add`, which is called only while the outputs object is being built."""
from pyvc.census import census_obligation, scan


def check(tier='quick', seed=0):
    out = [census_obligation(
        'census::TaskOutputs._completed written only by __init__, add and set_message_complete',
        ['_completed'],
        ['TaskOutputs.__init__', 'TaskOutputs.add', 'TaskOutputs.set_message_complete'])]
    return out
