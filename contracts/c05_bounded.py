"""C05, bounded stand-in (NOT a proof): queue membership after
IndepQueueManager._expand_families + _make_indep.

A functional proof of _make_indep needs an invariant over nested loops that
mutate the member sets through aliases (queues[q]["members"] is the input set)
with a "last queue listing n" spec function; not attempted.  Stand-in: the real
IndepQueueManager is constructed for EVERY configuration in a stated small
scope and the property clause is evaluated natively:

  each task name belongs to exactly one queue - the last non-default queue (in
  configuration order) that lists it directly or through a family, else the
  default queue; limits are copied.

Scope (quick):   <= 3 non-default queues, task names {a,b,c}, one family F={a,b},
                 each queue lists any subset of {a,b,c,F}: 16^3 + 16^2 + 16 + 1 configurations.
Scope (thorough): <= 4 queues (16^4 more), two families.
"""
import itertools


def _expected(qnames, listings, tasks, fams):
    owner = {}
    for t in tasks:
        owner[t] = 'default'
    for q in qnames:          # configuration order
        for item in listings[q]:
            for t in (fams[item] if item in fams else [item]):
                if t in tasks and t not in fams:
                    owner[t] = q
    return owner


def check(tier='quick', seed=0):
    from cylc.flow.task_queues.independent import IndepQueueManager
    tasks = ['a', 'b', 'c']
    fams = {'F': ['a', 'b']} if tier == 'quick' else {'F': ['a', 'b'], 'G': ['b', 'c', 'F']}
    items = tasks + list(fams)
    subsets = [list(c) for r in range(len(items) + 1) for c in itertools.combinations(items, r)]
    maxq = 3 if tier == 'quick' else 4
    n = bad = 0
    witnesses = []
    distinct = set()
    for nq in range(0, maxq + 1):
        qnames = [f'q{i}' for i in range(nq)]
        for combo in itertools.product(subsets, repeat=nq):
            listings = dict(zip(qnames, combo))
            qconfig = {'default': {'limit': 0, 'members': []}}
            for i, q in enumerate(qnames):
                qconfig[q] = {'limit': i + 1, 'members': list(listings[q])}
            n += 1
            try:
                mgr = IndepQueueManager(qconfig, list(tasks), {k: list(v) for k, v in fams.items()})
                got = {}
                for qn, q in mgr.queues.items():
                    for t in q.members:
                        got.setdefault(t, []).append(qn)
                exp = _expected(qnames, listings, tasks, fams)
                ok = all(got.get(t) == [exp[t]] for t in tasks) and set(got) <= set(tasks)
                ok = ok and all(mgr.queues[q].limit == qconfig[q]['limit'] for q in qconfig)
            except Exception as ex:  # the constructor must not fail on these inputs
                ok, got, exp = False, repr(ex), None
            distinct.add(tuple(sorted((t, tuple(v)) for t, v in got.items())) if isinstance(got, dict) else got)
            if not ok:
                bad += 1
                if len(witnesses) < 5:
                    witnesses.append(dict(queues=[(q, listings[q]) for q in qnames], got=got, expected=exp))
    res = dict(name='bounded::IndepQueueManager membership (each task in exactly one queue: last listing queue '
                    f'or default) over {n} configurations',
               kind='bounded', backend='native-enumeration', evaluations=n,
               distinct_outcomes=len(distinct),
               detail=f'exhaustive over <= {maxq} queues x subsets of {items}; NOT a proof')
    if bad:
        res.update(verdict='refuted', witness=witnesses,
                   detail=res['detail'] + f'; {bad} configurations violate the membership clause')
    else:
        res['verdict'] = 'proved'
    return [res]
