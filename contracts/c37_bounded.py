"""C37 — template variables survive restart unchanged.  BOUNDED stand-in, not a proof.

The round trip is repr() followed by ast.literal_eval(): CPython's literal grammar and repr
algorithms, not code of /repo that a contract could be discharged against.  The contract

    for every command-line value text s that templatevars.eval_var accepts, with v = eval_var(s):
        store:   WorkflowDatabaseManager.put_workflow_template_vars({k: v})   (real method, stub manager)
        restore: Scheduler._load_template_vars(row)                           (real method, stub scheduler)
        ensures  type(restored) is type(v) and restored == v and repr(restored) == repr(v)
    and a key given again on the command line at restart keeps the command-line value

is checked at run time for every literal of a small grammar (atoms, and containers of atoms nested
to depth 2)."""
import itertools
from unittest.mock import MagicMock

ATOMS = ['0', '-1', '100000000000000000000', '1.5', '-0.0', '1e-400', '1e999', '-1e999', '1e22', '0.1',
         "'a'", '"it\'s"', "'new\\nline'", "'\\u00e9'", "''", "'1'", "b'x'", 'None', 'True', 'False',
         '1j', '(1+2j)', "'inf'"]


def _literals(tier):
    for a in ATOMS:
        yield a
    small = ATOMS if tier == 'thorough' else ATOMS[:3] + ATOMS[3:9] + ATOMS[10:13] + ATOMS[16:19]
    for a in small:
        yield f'[{a}]'
        yield f'({a},)'
        yield f'{{{a}: {a}}}' if not a.startswith(('[', '{')) else f'[{a}]'
        yield f'{{{a}}}'
    for a, b in itertools.product(small[:8], repeat=2):
        yield f'[{a}, {b}]'
        yield f'{{"k": [{a}, ({b},)]}}'
    yield '[]'
    yield '{}'
    yield '()'
    yield '[[1, 2], {"a": {"b": [None, (1.5, "x")]}}]'


def _has_nonfinite(v):
    import math
    if isinstance(v, float):
        return math.isinf(v) or math.isnan(v)
    if isinstance(v, complex):
        return _has_nonfinite(v.real) or _has_nonfinite(v.imag)
    if isinstance(v, dict):
        return any(_has_nonfinite(k) or _has_nonfinite(x) for k, x in v.items())
    if isinstance(v, (list, tuple, set, frozenset)):
        return any(_has_nonfinite(x) for x in v)
    return False


def kf_nonfinite(witness, res):
    """known finding: values containing a float infinity (a literal such as 1e999 overflows to inf;
    repr gives 'inf', which literal_eval refuses)"""
    return bool(witness.get('nonfinite'))


def check(tier='quick', seed=0):
    from cylc.flow.templatevars import eval_var
    from cylc.flow.exceptions import InputError
    from cylc.flow.workflow_db_mgr import WorkflowDatabaseManager
    from cylc.flow.scheduler import Scheduler
    n_eval, distinct, bad, samples, accepted = 0, set(), [], [], 0
    for s in _literals(tier):
        n_eval += 1
        try:
            v = eval_var(s)
        except InputError:
            continue                      # not accepted at start-up: nothing to restore
        except Exception as ex:           # noqa: BLE001
            bad.append(dict(input=s, error='eval_var raised ' + repr(ex), nonfinite=False))
            continue
        accepted += 1
        mgr = WorkflowDatabaseManager.__new__(WorkflowDatabaseManager)
        mgr.db_inserts_map = {WorkflowDatabaseManager.TABLE_WORKFLOW_TEMPLATE_VARS: []}
        WorkflowDatabaseManager.put_workflow_template_vars(mgr, {'X': v})
        rows = mgr.db_inserts_map[WorkflowDatabaseManager.TABLE_WORKFLOW_TEMPLATE_VARS]
        if len(rows) != 1 or rows[0].get('key') != 'X':
            bad.append(dict(input=s, error=f'stored rows {rows!r}', nonfinite=False))
            continue
        stored = rows[0]['value']
        distinct.add(stored)
        schd = MagicMock()
        schd.template_vars = {}
        try:
            Scheduler._load_template_vars(schd, 0, ('X', stored))
            r = schd.template_vars.get('X', '<missing>')
            ok = type(r) is type(v) and (r == v or (r != r and v != v)) and repr(r) == repr(v)
            if not ok:
                bad.append(dict(input=s, stored=stored, restored=repr(r), expected=repr(v),
                                nonfinite=_has_nonfinite(v)))
        except Exception as ex:           # noqa: BLE001
            bad.append(dict(input=s, stored=stored, error='restart raised ' + repr(ex),
                            nonfinite=_has_nonfinite(v)))
        # precedence: a command-line value given at restart wins
        # (whatever that value is: falsy values are values too)
        for cli in ('from the command line', False, 0, 0.0, '', [], {}, None):
            schd2 = MagicMock()
            schd2.template_vars = {'X': cli}
            try:
                Scheduler._load_template_vars(schd2, 0, ('X', stored))
            except Exception:           # noqa: BLE001 - the stored text itself does not load: reported above
                continue
            got = schd2.template_vars['X']
            if type(got) is not type(cli) or got != cli:
                bad.append(dict(input=s, command_line_value_at_restart=repr(cli), value_after_restart=repr(got),
                                error='the stored value overrode the command line', nonfinite=False))
                break
        if len(samples) < 3 and s.startswith(('[', '{')):
            samples.append(dict(input=s, stored=stored))
    name = 'bounded::template variable accepted at start-up == value and type restored at restart'
    rule = (f'{n_eval} literal texts: {len(ATOMS)} atoms (ints, floats incl. overflow/underflow and -0.0, '
            'strings with quotes/newline/non-ASCII, bytes, None, bools, complex) and lists/tuples/dicts/sets of '
            'them to depth 2; accepted = eval_var returns; distinct = distinct stored texts')
    base = dict(name=name, kind='bounded', evaluations=n_eval, distinct=len(distinct), rule=rule,
                samples=samples, accepted=accepted)
    if bad:
        return [dict(base, verdict='refuted', witness=bad[:12], detail=f'{len(bad)} values do not round-trip')]
    return [dict(base, verdict='proved', detail=f'{accepted} accepted values of {n_eval} texts round-trip')]
