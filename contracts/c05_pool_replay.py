"""Replay support (bounded native search for a failing input of the REAL function when an obligation is
refuted or left undecided after a change of the code) for TaskPool.count_active_tasks and
TaskPool.set_hold_point: small pools built on the real TaskPool class without running its constructor;
tasks are light stand-ins whose state_reset / state() follow TaskState.reset / __call__."""
import itertools
from unittest.mock import MagicMock

from pyvc.spec import REG


class _State:
    def __init__(self, status, held):
        self.status = status
        self.is_held = held
        self.is_queued = False
        self.is_runahead = False
        self.is_updated = False
        self.kill_failed = False
        self.time_updated = None

    def __call__(self, *status, is_held=None, is_queued=None, is_runahead=None):
        return ((not status or self.status in status)
                and (is_held is None or self.is_held == is_held)
                and (is_queued is None or self.is_queued == is_queued)
                and (is_runahead is None or self.is_runahead == is_runahead))


class _Task:
    def __init__(self, point, name, status, prep, held):
        from cylc.flow.cycling.integer import IntegerPoint
        self.point = IntegerPoint(str(point))
        self.tdef = MagicMock()
        self.tdef.name = name
        self.identity = f'{point}/{name}'
        self.state = _State(status, held)
        self.waiting_on_job_prep = prep
        self.transient = False

    def state_reset(self, status=None, is_held=None, is_queued=None, is_runahead=None, silent=False,
                    forced=False):
        before = (self.state.status, self.state.is_held, self.state.is_queued, self.state.is_runahead)
        if status is not None:
            self.state.status = status
        for n, v in (('is_held', is_held), ('is_queued', is_queued), ('is_runahead', is_runahead)):
            if v is not None:
                setattr(self.state, n, v)
        after = (self.state.status, self.state.is_held, self.state.is_queued, self.state.is_runahead)
        if after != before:
            self.state.is_updated = True
        return after != before

    def __repr__(self):
        return f'<{self.identity} {self.state.status}>'


def mk_pool(specs):
    from cylc.flow.task_pool import TaskPool
    pool = TaskPool.__new__(TaskPool)
    pool.active_tasks = {}
    tasks = []
    for pt, name, status, prep, held in specs:
        t = _Task(pt, name, status, prep, held)
        pool.active_tasks.setdefault(t.point, {})[t.identity] = t
        tasks.append(t)
    pool._active_tasks_list = list(tasks)
    pool.active_tasks_changed = False
    pool.tasks_to_hold = set()
    pool.hold_point = None
    pool.data_store_mgr = MagicMock()
    pool.workflow_db_mgr = MagicMock()
    return pool


SPECS = [(pt, name, st, prep, held)
         for pt in (1, 2, 3)
         for name in ('a', 'b')
         for st in ('waiting', 'preparing', 'running', 'succeeded')
         for prep in (False, True)
         for held in (False, True)]


def pools():
    yield []
    for s in SPECS:
        yield [s]
    for a, b in itertools.product(SPECS[::3], SPECS[1::5]):
        if (a[0], a[1]) != (b[0], b[1]):
            yield [a, b]


def conc_pool(model, oname):
    for specs in pools():
        yield dict(tasks=specs), (lambda specs=specs: ([mk_pool(specs)], {}))


def conc_hold_point(model, oname):
    from cylc.flow.cycling.integer import IntegerPoint
    for specs in pools():
        for hp in (0, 1, 2):
            yield (dict(tasks=specs, hold_point=hp),
                   (lambda specs=specs, hp=hp: ([mk_pool(specs), IntegerPoint(str(hp))], {})))


def install():
    P = 'cylc.flow.task_pool:TaskPool.'
    if P + 'count_active_tasks' in REG.contracts:
        REG.contracts[P + 'count_active_tasks'].concretise = conc_pool
    if P + 'set_hold_point' in REG.contracts:
        REG.contracts[P + 'set_hold_point'].concretise = conc_hold_point


install()
