"""C21 — database writes are atomic and the public database converges.  BOUNDED stand-in, not a proof.

What SQLite does with an uncommitted transaction when the connection is closed, and what a lock does to a
second connection, is SQLite's semantics (the planned proof was relative to a transaction model that would
have to assume exactly that).  The contract is checked at run time on the REAL CylcWorkflowDAO /
WorkflowDatabaseManager with real database files in a scratch directory:

  private database, for every batch and every statement position k (and the commit itself):
      a failure (sqlite3.Error injected at the k-th executemany / at commit) propagates, and the content of
      the private database afterwards == its content before the batch;   without failure the content ==
      the batch applied, and the queues are empty
  public database, for every pattern of f <= MAX consecutive failed writes:
      a failed write does not raise, keeps the batch queued and counts the attempt; the next successful
      write (or, after the recovery threshold, recover_pub_from_pri) makes public content == private content

Batches: every sequence of <= 3 operations from insert / update / delete on task_states, task_pool and
workflow_params (quick); <= 4 (thorough)."""
import itertools
import os
import shutil
import sqlite3
import tempfile

OPS = ['ins_state', 'ins_pool', 'ins_param', 'upd_state', 'del_pool', 'del_state']


class _FailingConn:
    """delegates to a real connection; raises sqlite3.OperationalError at the k-th executemany
    (k counted from 0) or at commit (k == -1)"""

    def __init__(self, real, fail_at):
        self._real = real
        self._n = 0
        self._fail_at = fail_at

    def executemany(self, stmt, args):
        if self._fail_at == self._n:
            self._n += 1
            raise sqlite3.OperationalError('injected: database is locked')
        self._n += 1
        return self._real.executemany(stmt, args)

    def commit(self):
        if self._fail_at == -1:
            raise sqlite3.OperationalError('injected: disk I/O error at commit')
        return self._real.commit()

    def __getattr__(self, name):
        return getattr(self._real, name)


def _dump(path):
    if not os.path.exists(path):
        return None
    conn = sqlite3.connect(path)
    try:
        out = {}
        for t in ('tasks_to_hold', 'task_pool', 'workflow_params'):
            try:
                out[t] = sorted(map(tuple, conn.execute(f'SELECT * FROM {t}')), key=repr)   # nosec
            except sqlite3.Error:
                out[t] = 'missing'
        return out
    finally:
        conn.close()


def _queue(mgr, ops, salt):
    for i, op in enumerate(ops):
        n = f't{salt}{i}'
        if op == 'ins_state':        # (tasks_to_hold stands in: task_states has no queue of its own)
            mgr.db_inserts_map[mgr.TABLE_TASKS_TO_HOLD].append({'name': n, 'cycle': '1'})
        elif op == 'ins_pool':
            mgr.db_inserts_map[mgr.TABLE_TASK_POOL].append(
                {'name': n, 'cycle': '1', 'flow_nums': '[1]', 'status': 'waiting', 'is_held': 0})
        elif op == 'ins_param':
            mgr.db_inserts_map[mgr.TABLE_WORKFLOW_PARAMS].append({'key': n, 'value': 'v'})
        elif op == 'upd_state':
            mgr.db_updates_map[mgr.TABLE_TASK_POOL].append(
                ({'status': 'running'}, {'cycle': '1', 'name': 'seed'}))
        elif op == 'del_pool':
            mgr.db_deletes_map[mgr.TABLE_TASK_POOL].append({'cycle': '1', 'name': 'seed2'})
        elif op == 'del_state':
            mgr.db_deletes_map[mgr.TABLE_TASKS_TO_HOLD].append({'name': 'seed'})


def _fresh_mgr(tmp):
    from cylc.flow.workflow_db_mgr import WorkflowDatabaseManager
    pri, pub = os.path.join(tmp, 'pri'), os.path.join(tmp, 'pub')
    os.makedirs(pri)
    os.makedirs(pub)
    mgr = WorkflowDatabaseManager(pri, pub)
    mgr.on_workflow_start(is_restart=False)
    # fixed seed rows that updates / deletes refer to
    for nm in ('seed', 'seed2'):
        mgr.db_inserts_map[mgr.TABLE_TASK_POOL].append(
            {'name': nm, 'cycle': '1', 'flow_nums': '[1]', 'status': 'waiting', 'is_held': 0})
    mgr.db_inserts_map[mgr.TABLE_TASKS_TO_HOLD].append({'name': 'seed', 'cycle': '1'})
    mgr.process_queued_ops()
    return mgr


def _inject(dao, fail_at):
    real_connect = type(dao).connect

    def connect():
        if dao.conn is None:
            dao.conn = _FailingConn(sqlite3.connect(dao.db_file_name, timeout=dao.CONN_TIMEOUT), fail_at)
        return dao.conn
    dao.connect = connect
    return real_connect


def _one(ops, fail_at, pub_failures, quiet=False):
    """quiet: nothing new is queued between the last failed public write and the retry (an idle workflow)"""
    tmp = tempfile.mkdtemp(prefix='verif_c21_', dir='/var/tmp')
    problems = []
    try:
        mgr = _fresh_mgr(tmp)
        pri, pub = mgr.pri_dao.db_file_name, mgr.pub_dao.db_file_name
        before = _dump(pri)
        _queue(mgr, ops, 'b')
        if fail_at is not None:
            _inject(mgr.pri_dao, fail_at)
            raised = False
            try:
                mgr.process_queued_ops()
            except sqlite3.Error:
                raised = True
            after = _dump(pri)
            nstmts = fail_at + 1 if fail_at >= 0 else 0
            if not raised:
                # fewer statements than the failure position: the batch simply succeeded
                if after == before and ops:
                    problems.append('no error and nothing written')
            elif after != before:
                problems.append(f'private database changed by a failed batch (failure at statement {fail_at})')
            _ = nstmts
            return problems
        # public database: f consecutive failed writes, then a good one
        for _k in range(pub_failures):
            _inject(mgr.pub_dao, 0)
            try:
                mgr.process_queued_ops()
            except sqlite3.Error:
                problems.append('a failed public write raised')
            del mgr.pub_dao.connect           # back to the class method
            if not (quiet and _k == pub_failures - 1):
                _queue(mgr, ['ins_param'], f'r{_k}')
        if pub_failures and mgr.pub_dao.n_tries != pub_failures:
            problems.append(f'n_tries == {mgr.pub_dao.n_tries} after {pub_failures} failed public writes')
        mgr.process_queued_ops()
        if _dump(pri) != _dump(pub):
            problems.append('public database differs from the private one after a successful write')
        if any(t.insert_queue or t.update_queues or t.delete_queues for t in mgr.pub_dao.tables.values()):
            problems.append('public queues not empty after a successful write')
        # recovery threshold
        mgr.pub_dao.n_tries = mgr.pub_dao.MAX_TRIES
        os.unlink(pub)
        mgr.recover_pub_from_pri()
        if _dump(pri) != _dump(pub) or mgr.pub_dao.n_tries != 0:
            problems.append('recover_pub_from_pri did not restore the public database')
        return problems
    finally:
        shutil.rmtree(tmp, ignore_errors=True)


def _fail_pub_once(mgr, problems):
    _inject(mgr.pub_dao, 0)
    try:
        mgr.process_queued_ops()
    except sqlite3.Error:
        problems.append('a failed public write raised')
    del mgr.pub_dao.connect


def _directed(kind):
    """two histories in which batches that failed on the public database meet later operations:
    'recover'  a batch fails until the recovery threshold, the public file is re-copied from the private one,
               then the next (quiet) write happens - the re-copied file must not get the old batch again;
    'merge'    batch 1 inserts a row, batch 2 deletes it; both fail on the public database and are retried
               together - the public database must end up without the row, like the private one."""
    tmp = tempfile.mkdtemp(prefix='verif_c21_', dir='/var/tmp')
    problems = []
    try:
        mgr = _fresh_mgr(tmp)
        pri, pub = mgr.pri_dao.db_file_name, mgr.pub_dao.db_file_name
        if kind == 'recover':
            mgr.db_inserts_map[mgr.TABLE_TASKS_TO_HOLD].append({'name': 'late', 'cycle': '2'})
            _fail_pub_once(mgr, problems)
            mgr.pub_dao.n_tries = mgr.pub_dao.MAX_TRIES
            mgr.recover_pub_from_pri()
            mgr.process_queued_ops()          # an idle iteration after the recovery
        else:
            mgr.db_inserts_map[mgr.TABLE_TASKS_TO_HOLD].append({'name': 'r', 'cycle': '3'})
            _fail_pub_once(mgr, problems)
            mgr.db_deletes_map[mgr.TABLE_TASKS_TO_HOLD].append({'name': 'r', 'cycle': '3'})
            _fail_pub_once(mgr, problems)
            mgr.process_queued_ops()          # the retry of both batches
        a, b = _dump(pri), _dump(pub)
        if a != b:
            problems.append(dict(public_differs_from_private={
                t: dict(private=a[t], public=(b or {}).get(t)) for t in a if (b or {}).get(t) != a[t]}))
        return problems
    finally:
        shutil.rmtree(tmp, ignore_errors=True)


def kf_merged_retry_runs_deletes_before_inserts(witness, res):
    """known finding: two batches that failed on the public database are retried as ONE batch in which every
    DELETE of a table runs before every INSERT: 'insert r' (batch 1) then 'delete r' (batch 2) leaves r in
    the public database only"""
    return witness.get('directed') == 'merge'


def check(tier='quick', seed=0):
    nmax = 3 if tier == 'quick' else 4
    n_eval, bad, samples, distinct = 0, [], [], set()
    batches = [b for n in range(1, nmax + 1) for b in itertools.product(OPS, repeat=n)]
    if tier == 'quick':
        batches = batches[::3]
    for ops in batches:
        for fail_at in list(range(0, min(len(ops), 3) + 1)) + [-1]:
            n_eval += 1
            problems = _one(ops, fail_at, 0)
            distinct.add((ops, fail_at))
            if problems and len(bad) < 8:
                bad.append(dict(batch=list(ops), failure_at_statement=fail_at, problems=problems))
    for ops in batches[::7]:
        for pub_failures in (0, 1, 3):
            n_eval += 1
            problems = _one(ops, None, pub_failures)
            distinct.add((ops, 'pub', pub_failures))
            if problems and len(bad) < 8:
                bad.append(dict(batch=list(ops), failed_public_writes=pub_failures, problems=problems))
            if len(samples) < 3 and not problems:
                samples.append(dict(batch=list(ops), failed_public_writes=pub_failures))
            if pub_failures:
                # the same with an idle workflow: the retry must happen although nothing new was queued
                n_eval += 1
                problems = _one(ops, None, pub_failures, quiet=True)
                distinct.add((ops, 'pub-quiet', pub_failures))
                if problems and len(bad) < 8:
                    bad.append(dict(batch=list(ops), failed_public_writes=pub_failures,
                                    nothing_queued_before_the_retry=True, problems=problems))
    name = ('bounded::a failed private batch leaves the private database at the previous committed state; the '
            'public database retries and converges to the private one')
    rule = (f'{len(batches)} batches of <= {nmax} insert/update/delete operations over three tables x every '
            'failure position among the first statements and at commit (private); every 7th batch x 0/1/3 failed '
            'public writes (with and without new operations queued before the retry) + recovery at the threshold; '
            'real SQLite files; distinct = distinct (batch, fault) pairs')
    base = dict(name=name, kind='bounded', evaluations=n_eval, distinct=len(distinct), rule=rule,
                samples=samples or [dict(batch=list(batches[0]), failed_public_writes=0)])
    # directed histories (a second result: one of them is a listed finding)
    dbad = []
    for kind in ('recover', 'merge'):
        problems = _directed(kind)
        if problems:
            dbad.append(dict(directed=kind, problems=problems))
    second = dict(name='bounded::failed public batches retried together with later operations, or after the '
                       'recovery from the private database, leave the public database equal to the private one',
                  kind='bounded', evaluations=2, distinct=2, exhaustive=False,
                  rule='2 directed histories on real SQLite files: (recover) a batch fails on the public database '
                       'up to the recovery threshold, recover_pub_from_pri, one idle write; (merge) batch 1 '
                       'inserts a row, batch 2 deletes it, both fail on the public database and are retried '
                       'together',
                  samples=[dict(directed='recover'), dict(directed='merge')])
    second.update(dict(verdict='refuted', witness=dbad, detail=f'{len(dbad)} of 2 histories diverge') if dbad
                  else dict(verdict='proved', detail='2 histories'))
    if bad:
        return [dict(base, verdict='refuted', witness=bad, detail=f'{len(bad)} cases break the contract'), second]
    return [dict(base, verdict='proved', detail=f'{n_eval} (batch, fault) cases'), second]
