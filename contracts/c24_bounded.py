"""Bounded native companion of contracts/c24_restricted.py (NOT a proof, never counted as one).

The proof covers one call of the evaluator closure.  A change can move the safety argument out of the
verified subset (a cache of compiled code shared between evaluators, say): the symbolic check then ends
"unsupported" - undecided - without a verdict.  This enumeration exercises the REAL evaluators, in
sequences, with canary objects, so that such a change is reported with a failing input:

  for every expression of the corpus (whitelisted-only and not) and every history of earlier
  evaluations (none; the same text through the wider host-ranking evaluator; the same text padded):
    CompletionEvaluator rejects every expression that contains a call, attribute access, subscript,
    lambda, comprehension, walrus, comparison, unary / arithmetic operator or constant, BEFORE any canary
    fires; and a whitelisted-only expression naming a builtin raises NameError."""
import builtins


class _Canary:
    def __init__(self, log):
        object.__setattr__(self, '_log', log)

    def __getattr__(self, name):
        self._log.append(('getattr', name))
        return self

    def __call__(self, *a, **k):
        self._log.append(('call',))
        return self

    def __getitem__(self, k):
        self._log.append(('getitem', k))
        return self

    def __bool__(self):
        return True


FORBIDDEN = ['succeeded.fire', 'succeeded()', 'succeeded[0]', '(lambda: succeeded)()', '[x for x in (succeeded,)]',
             '(y := succeeded)', 'succeeded < 1', 'not succeeded', '-succeeded', 'succeeded + 1', '1',
             'succeeded if succeeded else failed', '{succeeded}', '(succeeded, failed)', 'f"{succeeded}"',
             'succeeded.__class__.__mro__', 'print(succeeded)', '__import__("os")', 'succeeded.real']
ALLOWED = ['succeeded', 'succeeded and failed', 'succeeded or failed', '(succeeded and x) or failed']


def check(tier='quick', seed=0):
    from cylc.flow.task_outputs import CompletionEvaluator
    from cylc.flow.host_select import RankingExpressionEvaluator
    name = ('bounded::CompletionEvaluator rejects non-whitelisted syntax before evaluating anything, also after '
            'other evaluators have seen the same text, and has no access to builtins')
    n, bad = 0, []
    for expr in FORBIDDEN:
        for history in ('none', 'wider-evaluator-first', 'padded'):
            n += 1
            log = []
            kw = dict(succeeded=_Canary(log), failed=_Canary(log), x=_Canary(log))
            if history == 'wider-evaluator-first':
                try:
                    RankingExpressionEvaluator(expr, **kw)
                except Exception:     # noqa: BLE001 - whatever the wider evaluator thinks of it
                    pass
                log.clear()
            text = f'  {expr} ' if history == 'padded' else expr
            try:
                r = CompletionEvaluator(text, **kw)
                bad.append(dict(expression=expr, history=history, returned=repr(r), canary=list(log)))
            except Exception as ex:     # noqa: BLE001
                if log:
                    bad.append(dict(expression=expr, history=history, raised=type(ex).__name__,
                                    but_evaluated=list(log)))
    for expr in ALLOWED:
        n += 1
        try:
            CompletionEvaluator(expr, succeeded=True, failed=False, x=True)
        except Exception as ex:     # noqa: BLE001
            bad.append(dict(expression=expr, error='whitelisted expression refused: ' + repr(ex)))
    for bname in [b for b in dir(builtins) if not b.startswith('_')]:
        n += 1
        try:
            r = CompletionEvaluator(f'succeeded or {bname}', succeeded=False)
            bad.append(dict(expression=f'succeeded or {bname}', returned=repr(r)[:60],
                            error='a builtin is visible to the expression'))
        except NameError:
            pass
        except Exception as ex:     # noqa: BLE001 - keywords (None, True) are Constants: refused, fine
            _ = ex
    if bad:
        return [dict(name=name, kind='bounded', verdict='refuted', evaluations=n, witness=bad[:8],
                     detail=f'{len(bad)} cases')]
    return [dict(name=name, kind='bounded', verdict='proved', evaluations=n,
                 detail=f'{len(FORBIDDEN)} forbidden expressions x 3 histories, {len(ALLOWED)} allowed, '
                        'every public builtin name')]
