"""C45 - Absolute-trigger outputs satisfy every dependent instance.  BOUNDED stand-in, not a proof.

The property is about the interplay of TaskPool.spawn_on_output (abs_outputs_done, put_insert_abs_output),
TaskPool.spawn_task (the "satisfy any absolute triggers" block), TaskPool.load_abs_outputs_for_restart and the
absolute_outputs table of the run database, inside a live scheduler: runahead release, parentless auto-spawning,
spawning as the child of another parent, manual commands, flows, shutdown and restart all decide WHEN and BY
WHICH ROUTE an instance of a dependent task is created.  That is far outside the verifier generator's subset, so
the contract is checked at run time on REAL Scheduler objects (simulation mode, real private/public SQLite
databases, real restart on the same run directory), with the main loop driven one iteration at a time.

Contract (from the property statement), evaluated after EVERY main-loop iteration, at the moment an instance is
added to the pool, and immediately after every restart, for every pooled instance of every dependent task:

  (1) after : once the output referenced by an absolute / initial-point-relative trigger is completed, the
              instance's prerequisite on that output is satisfied - for instances that were in the pool when
              it completed, instances spawned (much) later by runahead release, as a child of another parent,
              by `cylc trigger`, by `cylc set --pre`, in another flow (flow merge)
  (2) before: while that output is not completed the prerequisite is NOT satisfied (two-sided)
  (3) restart: (1) and (2) hold for every instance present after a clean stop + restart on the same run
              directory and for every instance spawned afterwards until the run ends
  (4) table : at every check point the absolute_outputs table of the private database holds exactly the
              completed absolute outputs (point, name, output)

Independent oracle: the module itself declares, per generated graph, which instances (task, cycle points of the
recurrence) depend on which upstream output (point, task, message); completion of an upstream output is observed
independently of the mechanism under test (outputs of the upstream task proxy while it is in the pool, and the
task_outputs table of the private database) and latched.

Harness notes: Scheduler.INTERVAL_MAIN_LOOP and the network thread's poll intervals are overridden per instance
(speed only); the process-wide GraphNodeParser cache is cleared before each scheduler (each real scheduler is a
new process).  One result per clause group: (1)+(2) in uninterrupted runs, (3), (4).

Finding kept visible (see kf_first_child_already_ran): clauses (1) and (3) are REFUTED by the real code when the
one graph child that spawn_on_output lists for an absolute trigger cannot be spawned (it already ran, or lies
before the start point of a warm start): the dependents waiting in the pool are then never satisfied."""
import asyncio
import json
import os
import shutil
import sqlite3
import sys
import tempfile

_HEAD = """[scheduler]
    allow implicit tasks = True
%(sched)s
[scheduling]
%(scheduling)s
    [[graph]]
%(graph)s
[runtime]
    [[root]]
        [[[simulation]]]
            default run length = PT0S
%(runtime)s
"""


_LABELS = {'the x message': 'x'}      # output message (what prerequisites and the table hold) -> output label


def _ints(a, b, step=1):
    return [str(i) for i in range(a, b + 1, step)]


def _days(*ds):
    return ['200001%02dT0000Z' % d for d in ds]


def _scenarios():
    """Generated workflows.  refs: (dependent task, its cycle points on that recurrence, upstream output)"""
    out = []

    def add(name, graph, refs, fcp=8, runahead='P1', runtime='', cycling='integer', ops=(), tier='quick',
            startcp=None, seq_first=None):
        out.append(dict(name=name, graph=graph, refs=refs, fcp=fcp, runahead=runahead, runtime=runtime,
                        cycling=cycling, ops=list(ops), tier=tier, startcp=startcp, seq_first=seq_first or {}))

    foo1 = ('1', 'foo', 'succeeded')
    foo2 = ('2', 'foo', 'succeeded')
    # --- foo[^] in a P1 section, output completed after a delay chain, runahead P1
    g = [('R1', 'd1 => d2 => foo'), ('P1', 'foo[^] => bar')]
    add('icp_P1', g, [('bar', _ints(1, 8), foo1)])
    add('icp_P1+trigger_far', g, [('bar', _ints(1, 8), foo1)],
        ops=[dict(at='after', n=1, cmd='trigger', tasks=['8/bar'])])
    add('icp_P1+trigger_first_before', g, [('bar', _ints(1, 8), foo1)],
        ops=[dict(at='iter', n=0, cmd='trigger', tasks=['1/bar'])])
    add('icp_P1_runahead0', g, [('bar', _ints(1, 6), foo1)], fcp=6, runahead='P0', tier='thorough')
    add('icp_P1+reload', g, [('bar', _ints(1, 8), foo1)],
        ops=[dict(at='after', n=2, cmd='reload')], tier='thorough')
    # --- absolute integer point foo[2], foo itself cycling (sequential)
    g = [('P1', 'foo[-P1] => foo'), ('P1', 'foo[2] => bar')]
    add('abs_int_2', g, [('bar', _ints(1, 8), foo2)], runahead='P2')
    g = [('P1', 'foo[-P1] => foo'), ('P1', 'foo[3] => bar')]
    add('abs_int_3', g, [('bar', _ints(1, 8), ('3', 'foo', 'succeeded'))], runahead='P2', tier='thorough')
    # ... warm start (cylc play --startcp=3): the dependents exist from the start point on
    g = [('P1', 'foo[-P1] => foo'), ('P1', 'foo[4] => bar')]
    add('abs_int_4_warm_start_3', g, [('bar', _ints(3, 8), ('4', 'foo', 'succeeded'))], runahead='P2',
        startcp='3', seq_first={'bar': '1'})
    # --- initial-point-relative offset foo[^+P1]
    g = [('P1', 'foo[-P1] => foo'), ('P1', 'foo[^+P1] => bar')]
    add('icp_plus_P1', g, [('bar', _ints(1, 8), foo2)])
    # --- custom output of a start-up task
    xrt = '    [[start]]\n        [[[outputs]]]\n            x = the x message\n'
    g = [('R1', 'd1 => start'), ('P1', 'start[^]:x => bar')]
    sx = ('1', 'start', 'the x message')
    add('custom_output', g, [('bar', _ints(1, 8), sx)], runtime=xrt)
    # ... two outputs of the same upstream instance, x forced by `cylc set --out` long before it succeeds
    add('custom_output+set_out', [('R1', 'd1 => d2 => d3 => d4 => start'), ('P1', 'start[^]:x | start[^] => bar')],
        [('bar', _ints(1, 8), sx), ('bar', _ints(1, 8), ('1', 'start', 'succeeded'))], runtime=xrt,
        ops=[dict(at='iter', n=1, cmd='set', tasks=['1/start'], outputs=['x'])], tier='thorough')
    # --- absolute trigger combined with an ordinary one: dependents spawn as children of baz
    g = [('R1', 'd1 => d2 => foo'), ('P1', 'baz'), ('P1', 'foo[^] & baz[-P1] => bar')]
    add('and_ordinary', g, [('bar', _ints(1, 8), foo1)], tier='thorough')
    add('and_ordinary+set_pre_before', g, [('bar', _ints(1, 8), foo1)],
        ops=[dict(at='iter', n=0, cmd='set', tasks=['7/bar'], prerequisites=['6/baz:succeeded'])])
    add('and_ordinary+set_pre_after', g, [('bar', _ints(1, 8), foo1)],
        ops=[dict(at='after', n=1, cmd='set', tasks=['7/bar'], prerequisites=['6/baz:succeeded'])])
    add('and_ordinary+new_flow_after', g, [('bar', _ints(1, 8), foo1)],
        ops=[dict(at='after', n=1, cmd='trigger', tasks=['5/baz'], flow=['new'])])
    add('and_ordinary+new_flow_before', g, [('bar', _ints(1, 8), foo1)],
        ops=[dict(at='iter', n=0, cmd='trigger', tasks=['5/baz'], flow=['new'])], tier='thorough')
    # --- or
    g = [('R1', 'd1 => d2 => d3 => foo'), ('P1', 'qux'), ('P1', 'foo[^] | qux => bar')]
    add('or_ordinary', g, [('bar', _ints(1, 8), foo1)])
    g = [('R1', 'd1 => d2 => foo'), ('P1', 'qux[-P1] => qux'), ('P1', 'foo[^] | qux[-P2] => bar')]
    add('or_ordinary_lagged', g, [('bar', _ints(1, 8), foo1)], runahead='P2', tier='thorough')
    # --- dependents on different recurrences
    g = [('R1', 'd1 => foo'), ('P1', 'foo[^] => bar'), ('P2', 'foo[^] => bar2'), ('+P1/P2', 'foo[^] => bar3')]
    r = [('bar', _ints(1, 9), foo1), ('bar2', _ints(1, 9, 2), foo1), ('bar3', _ints(2, 9, 2), foo1)]
    add('recurrences', g, r, fcp=9)
    add('recurrences+trigger_far', g, r, fcp=9,
        ops=[dict(at='after', n=1, cmd='trigger', tasks=['8/bar3'])], tier='thorough')
    # --- two absolute prerequisites completed at different times
    g = [('R1', 'd1 => foo'), ('P1', 'goo[-P1] => goo'), ('P1', 'foo[^] & goo[3] => bar')]
    add('two_abs', g, [('bar', _ints(1, 8), foo1), ('bar', _ints(1, 8), ('3', 'goo', 'succeeded'))],
        runahead='P2')
    # ... of the same upstream task at two different points
    #     ("|" so that dependents keep flowing - and being spawned - between the two completions)
    g = [('P1', 'foo[-P1] => foo'), ('P1', 'foo[^] | foo[5] => bar')]
    add('same_task_two_points', g, [('bar', _ints(1, 9), foo1), ('bar', _ints(1, 9), ('5', 'foo', 'succeeded'))],
        fcp=9)
    # --- dependents that start long after the absolute output is done
    g = [('R1', 'foo'), ('P1', 'tick[-P1] => tick'), ('R/5/P1', 'foo[^] => late')]
    add('late_recurrence', g, [('late', _ints(5, 8), foo1)])
    # --- one-off dependent (the graph of tests/integration/test_task_pool.py)
    g = [('P1', 'foo & other'), ('R1/2', 'foo[1] => pub')]
    add('one_off', g, [('pub', ['2'], foo1)], fcp=4, runahead='P3', tier='thorough')
    # --- datetime cycling
    g = [('R1', 'd1 => start'), ('P1D', 'start[^] => bar'), ('P1D', 'goo[-P1D] => goo'),
         ('P2D', 'goo[20000103T00Z] => bar2')]
    add('datetime', g, [('bar', _days(*range(1, 9)), ('20000101T0000Z', 'start', 'succeeded')),
                        ('bar2', _days(1, 3, 5, 7), ('20000103T0000Z', 'goo', 'succeeded'))],
        fcp='20000108T00Z', runahead='P2D', cycling='datetime')
    return out


def _flow_text(scn):
    if scn['cycling'] == 'integer':
        scheduling = ('    cycling mode = integer\n    initial cycle point = 1\n'
                      f"    final cycle point = {scn['fcp']}\n    runahead limit = {scn['runahead']}")
        sched = ''
    else:
        scheduling = ('    initial cycle point = 20000101T00Z\n'
                      f"    final cycle point = {scn['fcp']}\n    runahead limit = {scn['runahead']}")
        sched = '    UTC mode = True'
    sections = {}
    for sec, line in scn['graph']:
        sections.setdefault(sec, []).append(line)
    graph = '\n'.join('        %s = """\n%s\n        """' % (sec, '\n'.join('            ' + ln for ln in lines))
                      for sec, lines in sections.items())
    return _HEAD % dict(sched=sched, scheduling=scheduling, graph=graph, runtime=scn['runtime'])


# ---------------------------------------------------------------------------------------------------------
# environment


class _Env:
    """scratch HOME / cylc-run, and restoration of everything a Scheduler touches in this process"""

    def __enter__(self):
        self.home = tempfile.mkdtemp(prefix='verif_c45_', dir='/var/tmp')
        self.environ = dict(os.environ)
        self.cwd = os.getcwd()
        self.syspath = list(sys.path)
        self.loggers, self.signals, self.saved = {}, {}, False
        try:
            return self._enter()
        except BaseException:
            self.__exit__()
            raise

    def _enter(self):
        import logging
        import signal
        os.makedirs(os.path.join(self.home, 'conf'))
        os.environ['HOME'] = self.home
        os.environ['CYLC_CONF_PATH'] = os.path.join(self.home, 'conf')
        for var in [v for v in os.environ if v.startswith('CYLC_') and v != 'CYLC_CONF_PATH']:
            del os.environ[var]
        from cylc.flow.cfgspec.glbl_cfg import glbl_cfg
        glbl_cfg(reload=True)
        from cylc.flow.cycling import loader, iso8601
        from cylc.flow import flags, wallclock
        from metomi.isodatetime.data import CALENDAR
        self.cycler = vars(loader.DefaultCycler).get('TYPE', _Env)      # _Env = "was unset"
        self.iso = {k: v for k, v in vars(iso8601.WorkflowSpecifics).items() if not k.startswith('__')}
        self.calendar = CALENDAR.mode
        self.utc = wallclock.get_utc_mode()
        self.flags = (flags.verbosity, flags.cylc7_back_compat)
        self.saved = True
        for sig in (signal.SIGINT, signal.SIGTERM, signal.SIGHUP):
            try:
                self.signals[sig] = signal.getsignal(sig)
            except (ValueError, OSError):
                pass
        for lname in ('cylc', 'cylc-install', 'cylc-reinstall'):
            lg = logging.getLogger(lname)
            self.loggers[lname] = (list(lg.handlers), lg.level, lg.propagate)
        self.null = logging.NullHandler()
        lg = logging.getLogger('cylc')
        lg.addHandler(self.null)       # keep scheduler warnings off stderr
        lg.propagate = False
        return self

    def __exit__(self, *exc):
        try:
            self._restore_cylc()
        finally:
            os.environ.clear()
            os.environ.update(self.environ)
            sys.path[:] = self.syspath
            os.chdir(self.cwd)
            try:
                from cylc.flow.cfgspec.glbl_cfg import glbl_cfg
                glbl_cfg(reload=True)
            finally:
                shutil.rmtree(self.home, ignore_errors=True)
        return False

    def _restore_cylc(self):
        import logging
        import signal
        for lname, (handlers, level, propagate) in self.loggers.items():
            lg = logging.getLogger(lname)
            for h in list(lg.handlers):
                if h not in handlers:
                    lg.removeHandler(h)
                    try:
                        h.close()
                    except OSError:
                        pass
            lg.setLevel(level)
            lg.propagate = propagate
        for sig, handler in self.signals.items():
            try:
                if handler is not None:
                    signal.signal(sig, handler)
            except (ValueError, OSError):
                pass
        if not self.saved:
            return
        from cylc.flow.cycling import loader, iso8601
        from cylc.flow import flags, wallclock
        from metomi.isodatetime.data import CALENDAR
        if self.cycler is _Env:
            if 'TYPE' in vars(loader.DefaultCycler):
                del loader.DefaultCycler.TYPE
        else:
            loader.DefaultCycler.TYPE = self.cycler
        for k in [k for k in vars(iso8601.WorkflowSpecifics) if not k.startswith('__')]:
            if k not in self.iso:
                delattr(iso8601.WorkflowSpecifics, k)
        for k, v in self.iso.items():
            setattr(iso8601.WorkflowSpecifics, k, v)
        if CALENDAR.mode != self.calendar:
            CALENDAR.set_mode(self.calendar)
        wallclock.set_utc_mode(self.utc)
        from cylc.flow.graphnode import GraphNodeParser
        GraphNodeParser.get_inst().clear()
        flags.verbosity, flags.cylc7_back_compat = self.flags


# ---------------------------------------------------------------------------------------------------------
# one run of one scenario under one restart plan


class _Run:
    MAX_ITER = 45

    def __init__(self, env, scn, restarts, tag):
        self.env, self.scn, self.restarts, self.tag = env, scn, restarts, tag
        self.refs = {}
        for dep, points, up in scn['refs']:
            self.refs.setdefault(dep, []).append((set(points), tuple(up)))
        self.ups = sorted({tuple(up) for _, _, up in scn['refs']})
        self.completed = {}            # up -> check point index at which completion was first observed
        self.problems = []
        self.reported = set()
        self.forced = set()            # 'point/name' of instances given to `cylc trigger`
        self.schd = None
        self.first_final = {}          # (point, name) of a dependent's first instance -> iteration it was final by
        self.first_seen = {}           # (point, name) -> iteration at whose check point it was first in the pool
        self.n_eval = 0
        self.cov = dict(before=0, after=0, later=0, post_restart=0, post_restart_spawn=0, add_hook=0,
                        table=0, table_nonempty=0)
        self.seen = set()              # (point, name) ever observed in the pool
        self.loaded = set()            # instances present straight after the latest restart
        self.n_restarts = 0
        self.iter = -1
        self.first_done = None         # iteration whose boundary first showed a completed upstream output
        self.last_done = None
        self.finished = False
        self.n_iter = 0
        self.ops_done = []
        self.error = None

    # -- observation -------------------------------------------------------------------------------------
    def _db_rows(self, schd, sql):
        path = schd.workflow_db_mgr.pri_path
        if not os.path.exists(path):
            return []
        conn = sqlite3.connect(f'file:{path}?mode=ro', uri=True, timeout=10)
        try:
            return list(conn.execute(sql))
        finally:
            conn.close()

    def _observe_completion(self, schd):
        for t in schd.pool.get_tasks():
            for up in self.ups:
                if (str(t.point), t.tdef.name) == up[:2] and up not in self.completed:
                    if t.state.outputs.is_message_complete(up[2]):
                        self.completed[up] = self.iter
        for cycle, name, outputs in self._db_rows(schd, 'SELECT cycle, name, outputs FROM task_outputs'):
            try:
                outs = json.loads(outputs)
            except ValueError:
                continue
            # {label: message as received}; a forced output is recorded under its label with the message
            # "(manually completed)"
            done = set(outs) | set(outs.values()) if isinstance(outs, dict) else set(outs)
            for up in self.ups:
                if (cycle, name) == up[:2] and up not in self.completed and (
                        up[2] in done or _LABELS.get(up[2], up[2]) in done):
                    self.completed[up] = self.iter
        if self.completed:
            if self.first_done is None:
                self.first_done = self.iter
            if self.last_done is None and len(self.completed) == len(self.ups):
                self.last_done = self.iter

    @staticmethod
    def _lookup(itask, up):
        for pre in itask.state.prerequisites:
            for key, val in pre.items():
                if (str(key[0]), key[1], key[2]) == up:
                    return val
        return None

    def _first_instance(self, name, points):
        """diagnosis only: where is the first instance of the dependent (the one graph child that
        spawn_on_output lists for an absolute trigger)?"""
        first = self.scn['seq_first'].get(name) or min(points, key=lambda p: (len(p), p))
        startcp = self.scn['startcp']
        info = dict(id=f'{first}/{name}', in_pool=False,
                    finished_by_iteration=self.first_final.get((first, name)),
                    before_start_point=bool(startcp and int(first) < int(startcp)))
        if self.schd is not None:
            info['in_pool'] = any((str(t.point), t.tdef.name) == (first, name) for t in self.schd.pool.get_tasks())
        return info

    def _observe_first_instances(self, schd):
        """diagnosis only: the iteration by which the first instance of each dependent had a final status"""
        try:
            rows = self._db_rows(schd, 'SELECT cycle, name, status FROM task_states')
        except sqlite3.Error:
            return
        final = {(r[0], r[1]) for r in rows if r[2] in ('succeeded', 'failed', 'expired', 'submit-failed')}
        for name, refs in self.refs.items():
            for points, _ in refs:
                key = (self.scn['seq_first'].get(name) or min(points, key=lambda p: (len(p), p)), name)
                if key in final and key not in self.first_final:
                    self.first_final[key] = self.iter

    def _problem(self, **kw):
        key = (kw.get('clause'), kw.get('instance'), kw.get('prerequisite'), str(kw.get('demanded')),
               str(kw.get('observed')))
        if key in self.reported:
            return
        self.reported.add(key)
        if len(self.problems) < 4:
            self.problems.append(dict(scenario=self.scn['name'], graph=['%s = %s' % g for g in self.scn['graph']],
                                      runahead=self.scn['runahead'], start_point=self.scn['startcp'] or 'initial',
                                      restart_after_iterations=self.restarts_repr(),
                                      commands=self.ops_done, restarts_so_far=self.n_restarts, **kw))

    def restarts_repr(self):
        return 'every' if self.restarts == 'all' else sorted(self.restarts)

    def _check_instance(self, itask, where, done_set, one_sided=False):
        pt, nm = str(itask.point), itask.tdef.name
        for points, up in self.refs.get(nm, ()):
            if pt not in points:
                continue
            val = self._lookup(itask, up)
            done = up in done_set
            if one_sided and not done:
                continue
            self.n_eval += 1
            inst, pre = f'{pt}/{nm}', '%s/%s:%s' % up
            clause = 'restart' if self.n_restarts else 'run'
            if val is None:
                self._problem(clause=clause, where=where, instance=inst, prerequisite=pre,
                              observed='the instance has no such prerequisite',
                              demanded='a prerequisite on the absolute output')
            elif done and not val:
                self._problem(clause=clause, where=where, instance=inst, prerequisite=pre,
                              observed=f'unsatisfied ({val!r})', status=itask.state.status,
                              flow_nums=sorted(itask.flow_nums),
                              output_completed_at_iteration=self.completed.get(up),
                              first_dependent_instance=self._first_instance(nm, points),
                              instance_in_pool_since_iteration=self.first_seen.get((pt, nm)),
                              demanded='satisfied: the output is completed')
            elif not done and val and inst in self.forced:
                pass        # prerequisites of a force-triggered instance are satisfied by the command itself
            elif not done and val:
                self._problem(clause=clause, where=where, instance=inst, prerequisite=pre,
                              observed=f'satisfied ({val!r})', demanded='not satisfied: the output is not completed')
            yield done

    def checkpoint(self, schd, where, after_restart=False):
        self._observe_completion(schd)
        self._observe_first_instances(schd)
        pool = {(str(t.point), t.tdef.name): t for t in schd.pool.get_tasks()}
        if after_restart:
            self.loaded = set(pool)
        for key in pool:
            self.first_seen.setdefault(key, self.iter)
        for key, t in sorted(pool.items()):
            new = key not in self.seen
            for done in self._check_instance(t, where, self.completed):
                self.cov['after' if done else 'before'] += 1
                if done and new:
                    self.cov['later'] += 1
                if self.n_restarts:
                    self.cov['post_restart'] += 1
                    if key not in self.loaded:
                        self.cov['post_restart_spawn'] += 1
            self.seen.add(key)
        self.check_table(schd, where)

    def check_table(self, schd, where):
        rows = self._db_rows(schd, 'SELECT cycle, name, output FROM absolute_outputs')
        got = {tuple(r) for r in rows}
        want = {up for up in self.ups if up in self.completed}
        self.n_eval += 1
        self.cov['table'] += 1
        if want:
            self.cov['table_nonempty'] += 1
        if got != want:
            self._problem(clause='table', where=where, observed=sorted(got), demanded=sorted(want),
                          note='rows of absolute_outputs vs completed absolute outputs (point, name, output)')

    def hook(self, schd):
        """check an instance at the moment it enters the pool (one-sided: outputs known complete at the last
        check point); purely observational wrapper on this pool object"""
        orig = schd.pool.add_to_pool
        done_before = self.completed

        def add_to_pool(itask):
            try:
                for _ in self._check_instance(itask, f'add_to_pool during iteration {self.iter + 1}',
                                              dict(done_before), one_sided=True):
                    self.cov['add_hook'] += 1
            except Exception as exc:     # never disturb the scheduler
                self.error = f'hook: {exc!r}'
            return orig(itask)
        schd.pool.add_to_pool = add_to_pool

    # -- driving -----------------------------------------------------------------------------------------
    async def _launch(self, wid):
        from cylc.flow.scheduler import Scheduler
        from cylc.flow.scheduler_cli import RunOptions
        from cylc.flow.graphnode import GraphNodeParser
        # a scheduler is a fresh process in real life: the parser's process-wide cache would carry the null
        # offset of an integer-cycling workflow ("+P0") into the datetime-cycling one
        GraphNodeParser.get_inst().clear()
        opts = dict(paused_start=False, run_mode='simulation')
        if self.scn['startcp'] and not self.n_restarts:
            opts['startcp'] = self.scn['startcp']        # warm start; a restart takes it from the database
        schd = Scheduler(wid, RunOptions(**opts))
        schd.INTERVAL_MAIN_LOOP = 0          # instance attribute: no 1 s sleep per iteration
        schd.INTERVAL_MAIN_LOOP_QUICK = 0
        await schd.install()
        await schd.start()
        if not hasattr(schd, 'pool'):
            raise RuntimeError('scheduler did not start')
        # (instance attributes again) the network thread polls 5 times a second: a stop would wait 0.2-0.4 s
        schd.server.OPERATE_SLEEP_INTERVAL = 0.01
        schd.server.STOP_SLEEP_INTERVAL = 0.01
        self.hook(schd)
        self.schd = schd
        return schd

    async def _stop(self, schd, why):
        from cylc.flow.scheduler import SchedulerStop
        async with asyncio.timeout(20):
            await schd.shutdown(SchedulerStop(why))

    async def _apply_ops(self, schd):
        from cylc.flow import commands
        for op in self.scn['ops']:
            if op.get('done'):
                continue
            if op['at'] == 'iter':
                due = self.iter + 1 >= op['n']
            else:
                due = self.last_done is not None and self.iter + 1 >= self.last_done + op['n']
            if not due:
                continue
            op['done'] = True
            if op['cmd'] == 'trigger':
                self.forced.update(op['tasks'])
                await commands.run_cmd(commands.force_trigger_tasks(schd, op['tasks'], op.get('flow', [])))
            elif op['cmd'] == 'set':
                await commands.run_cmd(commands.set_prereqs_and_outputs(
                    schd, op['tasks'], op.get('flow', []), outputs=op.get('outputs'),
                    prerequisites=op.get('prerequisites')))
            elif op['cmd'] == 'reload':
                await commands.run_cmd(commands.reload_workflow(schd))
            self.ops_done.append({k: v for k, v in op.items() if k != 'done'} | {'before_iteration': self.iter + 1})

    async def drive(self):
        from cylc.flow.scheduler import SchedulerStop
        from cylc.flow.pathutil import get_cylc_run_dir
        for op in self.scn['ops']:
            op.pop('done', None)
        wid = f'c45/{self.tag}'
        rund = os.path.join(get_cylc_run_dir(), wid)
        os.makedirs(rund)
        with open(os.path.join(rund, 'flow.cylc'), 'w') as handle:
            handle.write(_flow_text(self.scn))
        schd = await self._launch(wid)
        try:
            self.checkpoint(schd, 'start-up, before the first iteration')
            while self.iter + 1 < self.MAX_ITER:
                await self._apply_ops(schd)
                try:
                    await schd._main_loop()
                except SchedulerStop as exc:
                    self.finished = True
                    done = schd
                    schd = None
                    async with asyncio.timeout(20):
                        await done.shutdown(exc)
                    self.iter += 1
                    self.check_table(done, 'after the final shutdown')
                    break
                self.iter += 1
                self.n_iter += 1
                self.checkpoint(schd, f'after iteration {self.iter}')
                if schd.is_stalled:
                    break
                if self.restarts == 'all' or self.iter in self.restarts:
                    old, schd = schd, None
                    await self._stop(old, 'c45 restart')
                    self.n_restarts += 1
                    schd = await self._launch(wid)
                    if not schd.is_restart:
                        raise RuntimeError('expected a restart')
                    self.checkpoint(schd, f'straight after the restart that followed iteration {self.iter}',
                                    after_restart=True)
                    if not schd.pool.get_tasks():
                        self.finished = True        # restarted a finished workflow
                        break
        finally:
            if schd is not None:
                await self._stop(schd, 'c45 teardown')
        return self


def kf_first_child_already_ran(witness, res):
    """known finding: spawn_on_output updates the other pooled instances of a dependent only inside
    `if c_task is not None`; when the one listed graph child (the dependent's instance at the start of its
    recurrence) cannot be spawned - it has already run in the flow (force-triggered early, or satisfied through
    the other side of an "|"), or it lies before the start point of a warm start - spawn_task returns None and
    the instances waiting in the pool are never satisfied (the workflow stalls; the state survives a restart)"""
    first = witness.get('first_dependent_instance') or {}
    done_at, fin, since = (witness.get('output_completed_at_iteration'), first.get('finished_by_iteration'),
                           witness.get('instance_in_pool_since_iteration'))
    return (witness.get('clause') in ('run', 'restart')
            and str(witness.get('observed', '')).startswith('unsatisfied')
            and witness.get('instance') != first.get('id')
            and None not in (done_at, since)
            and since <= done_at         # the unsatisfied instance was already waiting in the pool, and the
            and (first.get('before_start_point') is True        # listed graph child could not be spawned:
                 or (fin is not None and fin < done_at)))       # pre-start, or finished before the completion


def _do_run(env, scn, restarts, tag, max_iter=None):
    run = _Run(env, scn, restarts, tag)
    if max_iter:
        run.MAX_ITER = max_iter
    try:
        asyncio.run(run.drive())
    except Exception as exc:       # harness trouble: reported as 'unknown', never as 'proved'
        run.error = f'{type(exc).__name__}: {exc}'
    return run


# ---------------------------------------------------------------------------------------------------------


def check(tier='quick', seed=0):
    import time
    scns = [s for s in _scenarios() if tier != 'quick' or s['tier'] == 'quick']
    runs, incomplete = [], []
    deadline = time.time() + (75 if tier == 'quick' else 840)      # wall-clock budget: skipped work => 'unknown'
    with _Env() as env:
        n = 0
        for scn in scns:
            if time.time() > deadline:
                incomplete.append(dict(scenario=scn['name'], plan='no restart', error='skipped: time budget',
                                       problems=0))
                incomplete.append(dict(scenario=scn['name'], plan='all plans', error='skipped: time budget',
                                       problems=0))
                continue
            straight = _do_run(env, scn, frozenset(), f'r{n}')
            n += 1
            runs.append(straight)
            if straight.error or straight.first_done is None or not straight.finished:
                incomplete.append(dict(scenario=scn['name'], plan='no restart', error=straight.error,
                                       finished=straight.finished, completion_seen=straight.first_done,
                                       iterations=straight.n_iter, problems=len(straight.problems)))
                if straight.error or straight.first_done is None:
                    continue
            c1, c2, last = straight.first_done, straight.last_done or straight.first_done, straight.n_iter - 1
            if tier == 'quick':
                plans = [frozenset(k for k in (c1 - 1, c1, c2, c2 + 3) if 0 <= k <= last)]
                if scn['name'] == 'icp_P1':
                    plans.append('all')
            else:
                plans = [frozenset(k for k in (c1 - 1, c1, c2, c2 + 2, c2 + 5) if 0 <= k <= last)]
                plans += [frozenset([k]) for k in range(max(0, c1 - 2), last + 1)]
                plans.append('all')
            for plan in plans:
                if time.time() > deadline:
                    incomplete.append(dict(scenario=scn['name'], plan='remaining plans',
                                           error='skipped: time budget', problems=0))
                    break
                run = _do_run(env, scn, plan, f'r{n}', max_iter=straight.n_iter + 6)
                n += 1
                runs.append(run)
                if run.error or not run.finished or not run.n_restarts:
                    incomplete.append(dict(scenario=scn['name'], plan=run.restarts_repr(), error=run.error,
                                           finished=run.finished, restarts=run.n_restarts, iterations=run.n_iter,
                                           problems=len(run.problems)))

    def total(key, which):
        return sum(r.cov[key] for r in which)

    plain = [r for r in runs if r.restarts == frozenset()]
    rest = [r for r in runs if r.restarts != frozenset()]
    probs = [p for r in runs for p in r.problems]
    by = {c: [p for p in probs if p['clause'] == c] for c in ('run', 'restart', 'table')}
    samples = [dict(scenario=r.scn['name'], graph=['%s = %s' % g for g in r.scn['graph']],
                    restart_after_iterations=r.restarts_repr(), iterations=r.n_iter,
                    output_completed_at_iteration=r.first_done, commands=r.ops_done) for r in (plain[:1] + rest[1:3])]
    scope = (f'{len(scns)} generated workflows ({", ".join(s["name"] for s in scns)}): integer cycling 1..<=9 '
             '(one datetime P1D x 8), runahead P0-P3, triggers foo[^], foo[2..5], foo[^+P1], start[^]:x '
             '(custom output), foo[^] & baz[-P1], foo[^] | qux, two absolute prerequisites (different tasks / same '
             'task at two points / two outputs of one instance), dependents on P1 / P2 / +P1/P2 / R/5/P1 / R1/2, one '
             'warm start (--startcp=3); simulation mode, run length 0, every main-loop iteration checked until the '
             'workflow shuts down or stalls; commands: trigger of a far-future instance, trigger of the first '
             'instance before the output exists, set --pre, set --out of the absolute output, trigger --flow=new '
             '(flow merge)' + (', reload' if tier != 'quick' else '') + '. ')
    not_ex = ('NOT exercised: start tasks, --flow=none and flow-wait, cylc remove, suicide / expire triggers, live '
              'job submission, crashes (only clean stops), Cylc 7 back-compat mode, states inside an iteration other '
              'than the add_to_pool moment')
    results = []

    def emit(name, clause_keys, which, evals, need, rule):
        bad = [p for k in clause_keys for p in by[k]]
        base = dict(name=name, kind='bounded', evaluations=evals, distinct=len(which), rule=rule,
                    samples=samples, exhaustive=False)
        # a run that stopped early (stall) BECAUSE of a reported disagreement is accounted for by that
        # disagreement (possibly under another clause), it is not a shortfall of the harness
        errs = [i for i in incomplete if (i['plan'] == 'no restart') in
                ([True] if which is plain else [False] if which is rest else [True, False])
                and (i.get('error') or not i.get('problems'))]
        short = [k for k, v in need.items() if v <= 0]
        if bad:
            # witnesses: at most two per workflow first, so that one finding does not hide another
            # (and anything that is not the known finding before the known finding)
            per, picked, later = {}, [], []
            for p in sorted(bad, key=lambda p: kf_first_child_already_ran(p, None)):
                per[p['scenario']] = per.get(p['scenario'], 0) + 1
                (picked if per[p['scenario']] <= 2 else later).append(p)
            results.append(dict(base, verdict='refuted', witness=(picked + later)[:12],
                                detail=f'{len(bad)} disagreements in {len({p["scenario"] for p in bad})} workflows: '
                                + ', '.join(sorted({p['scenario'] for p in bad}))))
        elif errs or short or len(which) < len(scns):
            results.append(dict(base, verdict='unknown', witness=errs[:6],
                                detail=f'explored too little: incomplete runs {len(errs)}, empty coverage {short}'))
        else:
            results.append(dict(base, verdict='proved', detail=', '.join(f'{k}={v}' for k, v in need.items())))

    emit('bounded::in a running scheduler every pooled instance of a dependent task has its absolute-trigger '
         'prerequisite satisfied once the output is completed (also instances spawned later or by commands) and '
         'not before',
         ['run'], plain, sum(r.n_eval - r.cov['table'] for r in plain),
         dict(before=total('before', plain), after=total('after', plain), spawned_later=total('later', plain),
              at_add_to_pool=total('add_hook', plain)),
         scope + 'One uninterrupted run per workflow. ' + not_ex)
    emit('bounded::after a clean stop and restart on the same run directory the same holds for every instance '
         'loaded from the database and every instance spawned afterwards',
         ['restart'], rest, sum(r.n_eval - r.cov['table'] for r in rest),
         dict(restarts=sum(r.n_restarts for r in rest), after_restart=total('post_restart', rest),
              spawned_after_restart=total('post_restart_spawn', rest), before=total('before', rest)),
         scope + ('Restart plans per workflow (c = iteration at which the output was completed in the uninterrupted '
                  'run): '
                  + ('one run restarting after iterations {c-1, c, c+2, c+5}; one run per single restart point k for '
                     'every k >= c-2; one run restarting after every iteration. ' if tier != 'quick' else
                     'one run restarting after iterations {c-1, c, c+3}; for icp_P1 also one run restarting after '
                     'every iteration. ') + not_ex))
    emit('bounded::the absolute_outputs table of the private database holds exactly the completed absolute '
         'outputs at every check point',
         ['table'], runs, total('table', runs),
         dict(table_checks=total('table', runs), with_completed_outputs=total('table_nonempty', runs)),
         scope + 'Compared as a set after every iteration, after every restart and after the final shutdown, in '
         'all runs of the other two clauses. ' + not_ex)
    return results
