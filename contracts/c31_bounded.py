"""C31 - Sequential tasks never overlap and run in cycle order.  BOUNDED stand-in, not a proof.

The previous / next instance of a `[scheduling][special tasks] sequential` task is computed by walking the
task's recurrence objects (IntegerSequence / ISO8601Sequence: parsed recurrence expressions, exclusions, context
start / stop points, isodatetime arithmetic, caches) inside TaskState._add_prerequisites and
taskdef.generate_graph_children, and the run-time consequence goes through the whole task pool (parentless
spawning, runahead release, spawn_on_output, the queue, the simulated job life cycle).  None of that is inside
the verifier's subset, so the contract is checked at run time on the REAL objects: real WorkflowConfig objects
loaded from generated flow.cylc files in a scratch HOME, real TaskProxy / TaskState objects, real Scheduler
objects run in-process in simulation mode.

INDEPENDENT ORACLE: every generated recurrence is described by plain numbers (offset from the initial point,
step, repetition count, excluded offsets, "at the final point"); its points are computed arithmetically from those
numbers (never by asking cylc), the task's points are the union U over its recurrences, prev(p) is the greatest
point of U below p, next(p) the least point of U above p.  The cylc section heading is rendered from the same
numbers; a scenario in which TaskDef.is_valid_point disagrees with U on the probe grid is a harness problem and
makes the verdict 'unknown' (it never happens on the shipped menus).

Contract clauses (one result each):

  (P) definition level, prerequisites: the TaskState built for the instance at p (p in U, p >= start point) has
      exactly one unsatisfied prerequisite on its own task, `prev(p)/foo:succeeded`, when prev(p) exists and is
      >= the start point; it has no unsatisfied prerequisite on its own task otherwise, and a pre-satisfied one
      may only name prev(p).  Nothing earlier or later of itself.  The prerequisite object also behaves so: it
      reports unsatisfied, stays unsatisfied when an older instance's success is delivered (TaskProxy.satisfy_me
      with the token spawn_on_output would send), and becomes satisfied by prev(p)/foo:succeeded.
  (C) definition level, chain: the 'succeeded' output of the instance at p has the instance at next(p) among its
      graph children (TaskProxy.graph_children == generate_graph_children) whenever next(p) exists, and never an
      instance of itself at a point that is not in U.
  (G) definition level, inferred parent: generate_graph_parents reports prev(p) - and no other instance of the
      task itself - as the implicit previous-instance parent (the computation fixed by #7342 in 8.6.5).
  (R) run level: in a real Scheduler run (simulation mode, generous runahead limit, job completions injected
      from outside in several adversarial orders) no two instances of the sequential task are ever active
      (preparing / submitted / running) at the same time, every instance is submitted only after the instance at
      prev(p) succeeded (or prev(p) is before the start point), and every instance of the window is submitted
      exactly once (the chain does not break).

Every failing point carries a 'shape' tag when it has the exact geometry of one of the three findings reported
with this module (two integer-cycling defects that break P / C / R, one display-level defect of
generate_graph_parents that breaks only G; see the kf_* functions); a witness lists the shapes of all its failing
points in 'shapes' ('untagged' = none of them), and witnesses with untagged points are listed first."""
import itertools
import os
import shutil
import tempfile
from datetime import datetime, timedelta

TASK = 'foo'
ACTIVE = ('preparing', 'submitted', 'running')
SHAPE_PREV = ('integer: prev(p) is the last point of a repetition-limited recurrence that ended more than one step '
              'before p, and p is congruent to that recurrence')
SHAPE_NEXT = 'integer: next(p) is the first point of a recurrence that starts more than one step after p'
SHAPE_G = 'no stepped recurrence of the task contains both p and prev(p)'


# ----------------------------------------------------------------------------------------------------------
# the model: recurrences as numbers, points by arithmetic

def _rec(off, step, reps=None, excl=(), final=False, style='rel', month=False):
    """off / step / excl in base units (integer cycling: 1; datetime cycling: hours) from the initial point"""
    return dict(off=off, step=step, reps=reps, excl=tuple(excl), final=final, style=style, month=month)


INT_MODE = dict(name='integer', icp=1, fcp=16, win=16, far=70, grid=1, start_off=4)
INT_MODE2 = dict(name='integer', icp=4, fcp=19, win=15, far=70, grid=1, start_off=5)
DT_MODE = dict(name='datetime', icp=datetime(2000, 1, 1), fcp=datetime(2000, 1, 9), win=8 * 24, far=40 * 24,
               grid=6, start_off=60)
MONTH_MODE = dict(name='datetime', icp=datetime(2010, 1, 1), fcp=datetime(2010, 3, 4), win=62 * 24,
                  far=120 * 24, grid=24, start_off=30 * 24)

INT_MENU = [
    _rec(0, 1), _rec(0, 2), _rec(0, 3), _rec(1, 2), _rec(2, 3), _rec(3, 4, style='abs'),
    _rec(0, None), _rec(4, None), _rec(0, None, final=True),
    _rec(0, 1, excl=(2,)), _rec(0, 2, excl=(2, 6)),
    _rec(0, 2, reps=2), _rec(6, 6), _rec(9, 2), _rec(1, 4, reps=3),
    _rec(5, None, style='abs'),
]
DT_MENU = [
    _rec(0, 24), _rec(0, 48), _rec(0, 72), _rec(24, 48), _rec(0, 12), _rec(6, 24, style='clock'),
    _rec(6, 18), _rec(0, None), _rec(48, None), _rec(0, None, final=True),
    _rec(0, 24, excl=(48,)), _rec(0, 12, excl=(12, 60)),
    _rec(0, 48, reps=2), _rec(96, 48), _rec(48, 72, style='abs'),
]


def _val(m, units):
    return m['icp'] + units if m['name'] == 'integer' else m['icp'] + timedelta(hours=units)


def _pt(m, v):
    """model value -> cylc point string (integer / UTC basic format, the workflow's dump format)"""
    return str(v) if m['name'] == 'integer' else v.strftime('%Y%m%dT%H%MZ')


def _dur(m, n):
    if m['name'] == 'integer':
        return f'P{n}'
    return f'P{n // 24}D' if n % 24 == 0 else f'PT{n}H'


def _rec_points(rec, m, fcp):
    """points of one recurrence up to the far horizon, by arithmetic only"""
    far = _val(m, m['far'])
    lim = far if fcp is None else min(far, fcp)
    if rec['final']:
        return {fcp}
    out = set()
    if rec['month']:
        y, mo = m['icp'].year, m['icp'].month
        while True:
            v = datetime(y, mo, 1)
            if v > lim:
                break
            out.add(v)
            y, mo = (y + 1, 1) if mo == 12 else (y, mo + 1)
        return out
    k = 0
    while True:
        v = _val(m, rec['off'] + (0 if rec['step'] is None else k * rec['step']))
        if v > lim or (rec['reps'] is not None and k >= rec['reps']) or (rec['step'] is None and k >= 1):
            break
        out.add(v)
        k += 1
    return out - {_val(m, e) for e in rec['excl']}


def _render(rec, m):
    """the cylc graph section heading of a recurrence"""
    if rec['final']:
        return 'R1/$'
    if rec['month']:
        return 'P1M'
    off, step, reps, style = rec['off'], rec['step'], rec['reps'], rec['style']
    if style == 'clock':
        return f'T{off:02d}'
    anchor = _pt(m, _val(m, off)) if style == 'abs' else ('^' if off == 0 else '+' + _dur(m, off))
    if step is None:
        s = 'R1' if anchor == '^' else f'R1/{anchor}'
    elif reps is not None:
        s = f'R{reps}/{anchor}/{_dur(m, step)}'
    elif style == 'abs':
        s = f'R/{anchor}/{_dur(m, step)}'
    elif off == 0:
        s = _dur(m, step)
    else:
        s = f'{anchor}/{_dur(m, step)}'
    if rec['excl']:
        ex = [_pt(m, _val(m, e)) for e in rec['excl']]
        s += '!' + (ex[0] if len(ex) == 1 else '(' + ','.join(ex) + ')')
    return s


def _flow_text(sc, run=False):
    m = sc['mode']
    lines = ['[scheduler]', '    allow implicit tasks = True']
    if m['name'] == 'datetime':
        lines.append('    UTC mode = True')
    lines.append('[scheduling]')
    if m['name'] == 'integer':
        lines.append('    cycling mode = integer')
    lines.append(f"    initial cycle point = {_pt(m, m['icp'])}")
    if sc['fcp'] is not None:
        lines.append(f"    final cycle point = {_pt(m, sc['fcp'])}")
    if run:
        lines.append('    runahead limit = P40')
    lines += ['    [[special tasks]]', f'        sequential = {TASK}', '    [[graph]]']
    for i, rec in enumerate(sc['recs']):
        g = TASK
        if sc['variant'] == 'helpers' and i == 0:
            g = f'bar => {TASK} => baz'
        elif sc['variant'] == 'helpers2':
            g = f'bar => {TASK}'
        lines.append(f'        {_render(rec, m)} = {g}')
    lines += ['[runtime]', '    [[root]]', '        [[[simulation]]]', '            default run length = PT1H']
    return '\n'.join(lines) + '\n'


def _scenario(m, recs, variant):
    has_final = any(r['final'] for r in recs)
    fcp = None if variant == 'nofcp' and not has_final else m['fcp']
    start = _val(m, m['start_off']) if variant == 'startcp' else m['icp']
    sc = dict(mode=m, recs=list(recs), variant=variant, fcp=fcp, start=start)
    union = set()
    for r in recs:
        union |= _rec_points(r, m, fcp)
    sc['union'] = sorted(union)
    return sc


def _describe(sc):
    m = sc['mode']
    d = dict(cycling=m['name'], initial=_pt(m, m['icp']), sections=[_render(r, m) for r in sc['recs']],
             variant=sc['variant'])
    d['final'] = None if sc['fcp'] is None else _pt(m, sc['fcp'])
    if sc['start'] != m['icp']:
        d['startcp'] = _pt(m, sc['start'])
    return d


def _prev_next(union, p):
    lo = [u for u in union if u < p]
    hi = [u for u in union if u > p]
    return (max(lo) if lo else None), (min(hi) if hi else None)


def _shape_prev(sc, p, q):
    """does the expected previous point q of p have the geometry of the integer 'prev' finding?"""
    m = sc['mode']
    if m['name'] != 'integer' or q is None:
        return None
    for r in sc['recs']:
        if r['step'] and r['reps'] is not None and not r['final']:
            pts = _rec_points(r, m, sc['fcp'])
            if pts and max(pts) == q and p - q > r['step'] and (p - q) % r['step'] == 0 and not r['excl']:
                return SHAPE_PREV
    return None


def _shape_next(sc, p, n):
    m = sc['mode']
    if m['name'] != 'integer' or n is None:
        return None
    for r in sc['recs']:
        if r['step'] and not r['final']:
            pts = _rec_points(r, m, sc['fcp'])
            if pts and min(pts) == n and n == _val(m, r['off']) and n - p > r['step']:
                return SHAPE_NEXT
    return None


def _kf(witness, own):
    """every failing point of the witness has the geometry of a reported finding, at least one has this one's"""
    shapes = set(witness.get('shapes') or [witness.get('shape')])
    return own in shapes and shapes <= {SHAPE_PREV, SHAPE_NEXT, SHAPE_G}


def _shape_g(sc, p, q):
    """geometry of the generate_graph_parents finding: no stepped recurrence contains both p and prev(p)"""
    if q is None:
        return None
    m = sc['mode']
    for r in sc['recs']:
        pts = _rec_points(r, m, sc['fcp'])
        if q in pts and p in pts and (r['step'] or r['month']):
            return None
    return SHAPE_G


def kf_graph_parents_prev_only_on_sequence(witness, res):
    """known finding (clause G only, display level): generate_graph_parents takes max(seq.get_prev_point(p)) over
    the task's recurrences; get_prev_point assumes p is ON that recurrence (and is None for one-off recurrences),
    so when prev(p) lies on a recurrence that does not contain p the inferred previous-instance parent is an
    earlier point, missing, or (datetime) an off-sequence point.  TaskState._add_prerequisites uses
    get_nearest_prev_point and is right in these cases, so scheduling is not affected"""
    return _kf(witness, SHAPE_G)


def kf_integer_prev_beyond_count_limited_recurrence(witness, res):
    """known finding: IntegerSequence.get_nearest_prev_point(p) returns None (instead of the recurrence's last
    point) when p is congruent to a repetition-limited recurrence (R<n>/start/P<k>) and lies more than one step
    beyond its last point - the sequential prerequisite / inferred parent on that last point is lost, the two
    instances overlap at run time (clauses P, G, R)"""
    return _kf(witness, SHAPE_PREV)


def kf_integer_next_before_late_recurrence(witness, res):
    """known finding: IntegerSequence.get_next_point(p) returns None (instead of the recurrence's first point)
    when p lies more than one step before the recurrence's start - the chain of a sequential task is not
    continued into a recurrence that starts late, its instances are never spawned (clauses C, R)"""
    return _kf(witness, SHAPE_NEXT)


# ----------------------------------------------------------------------------------------------------------
# sandbox: scratch HOME, restore every global the real code touches

class _Sandbox:
    def __enter__(self):
        import logging
        import signal
        import sys
        import threading
        self.env = dict(os.environ)
        self.cwd = os.getcwd()
        self.path = list(sys.path)
        self.handlers = {n: list(logging.getLogger(n).handlers) for n in ('', 'cylc')}
        self.levels = {n: logging.getLogger(n).level for n in ('', 'cylc')}
        self.signals = {}
        if threading.current_thread() is threading.main_thread():
            for s in (signal.SIGINT, signal.SIGTERM, signal.SIGHUP):
                self.signals[s] = signal.getsignal(s)
        self.home = tempfile.mkdtemp(prefix='verif_c31_', dir='/var/tmp')
        os.environ['HOME'] = self.home
        for k in list(os.environ):
            if k.startswith('CYLC_'):
                del os.environ[k]
        from cylc.flow.cycling import loader, iso8601
        import cylc.flow.flags as flags
        from metomi.isodatetime.data import Calendar
        self.cycler = getattr(loader.DefaultCycler, 'TYPE', None)
        self.ws = {k: v for k, v in vars(iso8601.WorkflowSpecifics).items() if not k.startswith('__')}
        self.calendar = Calendar.default().mode
        self.flags = (flags.verbosity, flags.cylc7_back_compat)
        from cylc.flow.cfgspec.glbl_cfg import glbl_cfg
        glbl_cfg(reload=True)
        return self

    def __exit__(self, *exc):
        import logging
        import signal
        import sys
        os.environ.clear()
        os.environ.update(self.env)
        try:
            os.chdir(self.cwd)
        except OSError:
            pass
        sys.path[:] = self.path
        for n, hs in self.handlers.items():
            lg = logging.getLogger(n)
            for h in list(lg.handlers):
                if h not in hs:
                    lg.removeHandler(h)
                    try:
                        h.close()
                    except Exception:
                        pass
            lg.setLevel(self.levels[n])
        for s, h in self.signals.items():
            try:
                signal.signal(s, h)
            except (ValueError, TypeError):
                pass
        from cylc.flow.cycling import loader, iso8601
        import cylc.flow.flags as flags
        from metomi.isodatetime.data import Calendar
        if self.cycler is None:
            if 'TYPE' in vars(loader.DefaultCycler):
                del loader.DefaultCycler.TYPE
        else:
            loader.DefaultCycler.TYPE = self.cycler
        for k in [k for k in vars(iso8601.WorkflowSpecifics) if not k.startswith('__')]:
            if k not in self.ws:
                delattr(iso8601.WorkflowSpecifics, k)
        for k, v in self.ws.items():
            setattr(iso8601.WorkflowSpecifics, k, v)
        Calendar.default().set_mode(self.calendar)
        flags.verbosity, flags.cylc7_back_compat = self.flags
        try:
            from cylc.flow.graphnode import GraphNodeParser
            GraphNodeParser.get_inst().clear()
        except Exception:
            pass
        from cylc.flow.cfgspec.glbl_cfg import glbl_cfg
        glbl_cfg(reload=True)
        shutil.rmtree(self.home, ignore_errors=True)
        return False


def _write_flow(home, wid, text):
    d = os.path.join(home, 'cylc-run', wid)
    os.makedirs(d, exist_ok=True)
    path = os.path.join(d, 'flow.cylc')
    with open(path, 'w') as fh:
        fh.write(text)
    return path


# ----------------------------------------------------------------------------------------------------------
# layer A: definition level

def _definition(home, sc, wid):
    """evaluate clauses P, C, G on every instance of the window; returns (counts, problems, mismatch)"""
    from cylc.flow.config import WorkflowConfig
    from cylc.flow.scheduler_cli import RunOptions
    from cylc.flow.cycling.loader import get_point
    from cylc.flow.id import Tokens
    from cylc.flow.task_proxy import TaskProxy
    from cylc.flow.taskdef import generate_graph_children, generate_graph_parents
    m = sc['mode']
    path = _write_flow(home, wid, _flow_text(sc))
    opts = RunOptions(startcp=_pt(m, sc['start'])) if sc['start'] != m['icp'] else RunOptions()
    cfg = WorkflowConfig(wid, path, opts)
    tdef = cfg.taskdefs[TASK]
    union, uset = sc['union'], set(sc['union'])
    win_end = _val(m, m['win'])
    if sc['fcp'] is not None:
        win_end = min(win_end, sc['fcp'])

    def cp(v):
        return get_point(_pt(m, v)).standardise()

    # harness self-check: the rendering means what the numbers say
    if not tdef.sequential:
        return None, None, dict(reason='task not flagged sequential by the real config')
    if str(tdef.start_point) != _pt(m, sc['start']) or str(tdef.initial_point) != _pt(m, m['icp']):
        return None, None, dict(reason='start / initial point differ', start=str(tdef.start_point),
                                initial=str(tdef.initial_point))
    g = 0
    while True:
        v = _val(m, g)
        if v > win_end:
            break
        if tdef.is_valid_point(cp(v)) != (v in uset):
            return None, None, dict(reason='is_valid_point disagrees with the arithmetic point set',
                                    point=_pt(m, v), model=v in uset)
        g += m['grid']

    counts = dict(P=0, C=0, G=0, points=0)
    problems = dict(P=[], C=[], G=[])
    tokens = Tokens('~verif/' + wid)
    for p in union:
        if p < sc['start'] or p > win_end:
            continue
        counts['points'] += 1
        prev, nxt = _prev_next(union, p)
        point = cp(p)
        itask = TaskProxy(tokens, tdef, point)
        # (P) prerequisites of the real TaskState
        own = []
        for pre in itask.state.prerequisites:
            for key, sat in pre.items():
                if key.task == TASK:
                    own.append((str(key.point), key.output, bool(sat)))
        unsat = sorted(x[0] for x in own if not x[2])
        want = [_pt(m, prev)] if prev is not None and prev >= sc['start'] else []
        bad = unsat != want or any(x[1] != 'succeeded' for x in own)
        if prev is None:
            bad = bad or bool(own)
        else:
            bad = bad or any(x[0] != _pt(m, prev) for x in own)
        # ... and it behaves as one: unsatisfied now, not satisfied by an older instance's success, satisfied by
        # exactly the message the real spawn_on_output would deliver for prev(p)
        behaviour = None
        objs = [pre for pre in itask.state.prerequisites if any(k.task == TASK for k in pre.keys())]
        if not bad:
            if want:
                older = _prev_next(union, prev)[0]
                if any(pre.is_satisfied() for pre in objs):
                    behaviour = 'prerequisite object reports satisfied before the previous instance succeeded'
                if behaviour is None and older is not None:
                    itask.satisfy_me([tokens.duplicate(cycle=_pt(m, older), task=TASK, task_sel='succeeded')])
                    if any(pre.is_satisfied() for pre in objs):
                        behaviour = f'satisfied by {_pt(m, older)}/{TASK}:succeeded (an older instance)'
                if behaviour is None:
                    itask.satisfy_me([tokens.duplicate(cycle=want[0], task=TASK, task_sel='succeeded')])
                    if not all(pre.is_satisfied() for pre in objs):
                        behaviour = f'not satisfied by {want[0]}/{TASK}:succeeded'
            elif not all(pre.is_satisfied() for pre in objs):
                behaviour = 'prerequisite object on itself unsatisfied although nothing is demanded'
        counts['P'] += 1
        if bad or behaviour:
            problems['P'].append(dict(clause='P', point=_pt(m, p), own_prerequisites=[list(x) for x in own],
                                      demanded_unsatisfied=want, behaviour=behaviour,
                                      previous_instance=None if prev is None else _pt(m, prev),
                                      shape=_shape_prev(sc, p, prev) if bad else None))
        # (C) children of the succeeded output
        kids = itask.graph_children
        direct = generate_graph_children(tdef, point)
        own_kids = sorted(str(c.point) for c in kids.get('succeeded', []) if c.name == TASK)
        all_own = sorted(str(c.point) for lst in kids.values() for c in lst if c.name == TASK)
        want_next = None if nxt is None else _pt(m, nxt)
        upts = {_pt(m, u) for u in union}
        # (a child beyond the final cycle point is never spawned: TaskPool.can_be_spawned; not demanded absent)
        all_own = sorted(str(c.point) for lst in kids.values() for c in lst if c.name == TASK
                         and not (sc['fcp'] is not None and c.point > cp(sc['fcp'])))
        badc = (want_next is not None and want_next not in own_kids) or any(k not in upts for k in all_own) \
            or {o: sorted((c.name, str(c.point)) for c in l) for o, l in kids.items()} \
            != {o: sorted((c.name, str(c.point)) for c in l) for o, l in direct.items()}
        counts['C'] += 1
        if badc:
            problems['C'].append(dict(clause='C', point=_pt(m, p), own_children_of_succeeded=own_kids,
                                      own_children_any_output=all_own, next_instance=want_next,
                                      shape=_shape_next(sc, p, nxt)))
        # (G) inferred previous-instance parent
        par = sorted(str(t.point) for t in generate_graph_parents(tdef, point, cfg.taskdefs) if t.name == TASK)
        wantp = [] if prev is None else [_pt(m, prev)]
        counts['G'] += 1
        if par != wantp:
            problems['G'].append(dict(clause='G', point=_pt(m, p), own_parents=par, demanded=wantp,
                                      shape=_shape_prev(sc, p, prev) or _shape_g(sc, p, prev)))
    return counts, problems, None


def _definition_scenarios(tier):
    """the enumerated box of layer A"""
    out = []
    variants = ['plain', 'helpers', 'startcp', 'nofcp']
    for m, menu in ((INT_MODE, INT_MENU), (DT_MODE, DT_MENU)):
        sets = [(r,) for r in menu] + list(itertools.combinations(menu, 2))
        if tier != 'quick':
            sets += list(itertools.combinations(menu, 3))
        for i, recs in enumerate(sets):
            if tier == 'quick':
                vs = ['plain', variants[1 + i % 3]] if len(recs) == 2 else [variants[i % 4]]
            elif len(recs) == 3:
                vs = [variants[i % 4]]
            else:
                vs = variants
            for v in vs:
                if v == 'nofcp' and any(r['final'] for r in recs):
                    v = 'helpers'
                out.append(_scenario(m, recs, v))
    if tier != 'quick':
        # the same integer menu from another initial point (offsets are relative, absolute anchors move along)
        for recs in [(r,) for r in INT_MENU] + list(itertools.combinations(INT_MENU, 2)):
            for v in ('plain', 'startcp'):
                out.append(_scenario(INT_MODE2, recs, v))
    # the #7342 shape: coincident points of a fine and a coarse recurrence (tests/unit/test_taskdef.py)
    for v in ('plain', 'helpers', 'startcp'):
        out.append(_scenario(MONTH_MODE, (_rec(0, 24), _rec(0, None, month=True)), v))
        out.append(_scenario(MONTH_MODE, (_rec(0, 48), _rec(0, None, month=True)), v))
    seen, uniq = set(), []
    for sc in out:
        key = repr(_describe(sc))
        if key not in seen:
            seen.add(key)
            uniq.append(sc)
    return uniq


# ----------------------------------------------------------------------------------------------------------
# layer B: run level

def _run_scenarios(tier, seed):
    I, D = INT_MODE, DT_MODE
    im = dict(I, fcp=12, win=12)
    dm = dict(D, fcp=datetime(2000, 1, 6), win=5 * 24)
    base = [
        (im, (_rec(0, 1),), 'plain'),
        (im, (_rec(0, 2), _rec(0, 3)), 'helpers2'),                 # coincident points of two recurrences
        (im, (_rec(0, None), _rec(1, 2)), 'plain'),                 # R1 plus +P1/P2
        (im, (_rec(0, 1, excl=(2,)), _rec(2, 3)), 'helpers'),       # exclusion filled in by another recurrence
        (im, (_rec(0, 3), _rec(1, 4, reps=3)), 'startcp'),
        (im, (_rec(0, 2, reps=2), _rec(6, 6)), 'plain'),            # finding: prev beyond a limited recurrence
        (im, (_rec(0, None), _rec(9, 2)), 'plain'),                 # finding: next into a late recurrence
        (dm, (_rec(0, 24), _rec(12, 48)), 'helpers2'),
        (dm, (_rec(0, 48, reps=2), _rec(96, 24)), 'plain'),         # datetime twin of the first finding's shape
        (dm, (_rec(6, 18), _rec(0, None, final=True)), 'startcp'),
    ]
    policies = ['eager', 'foo-slow', 'helpers-late', 'random']
    out = []
    for i, (m, recs, v) in enumerate(base):
        if tier == 'quick':
            pols = [policies[(i + 1) % 4]] + ([policies[(i + 2) % 4]] if i in (1, 3) else [])
        else:
            pols = policies + ['random2', 'random3']
        for pol in pols:
            sc = _scenario(m, recs, v)
            sc['policy'] = pol
            out.append(sc)
    return out


async def _drive(sc, wid, trace, rnd):
    """run the real scheduler; complete simulated jobs from outside in the order the policy says"""
    from cylc.flow.scheduler import Scheduler, SchedulerStop
    from cylc.flow.scheduler_cli import RunOptions
    import asyncio
    m = sc['mode']
    opts = dict(paused_start=False, run_mode='simulation')
    if sc['start'] != m['icp']:
        opts['startcp'] = _pt(m, sc['start'])
    schd = Scheduler(wid, RunOptions(**opts))
    schd.INTERVAL_MAIN_LOOP = 0.0          # do not sleep between main loop iterations (harness timing only)
    schd.INTERVAL_MAIN_LOOP_QUICK = 0.0
    await schd.install()
    policy = sc['policy']
    reason, end, iters = None, 'iteration cap', 0
    try:
        await schd.start()
        age, idle = {}, 0
        for iters in range(1, 400):
            try:
                await schd._main_loop()
            except SchedulerStop as exc:
                reason, end = exc, 'stopped: ' + str(exc)
                break
            running = sorted((t for t in schd.pool.get_tasks() if t.state.status == 'running'),
                             key=lambda t: (t.point, t.tdef.name))
            for t in running:
                age[t.identity] = age.get(t.identity, 0) + 1
            foos = [t for t in running if t.tdef.name == TASK]
            helpers = [t for t in running if t.tdef.name != TASK]
            if policy == 'eager':
                done = running
            elif policy == 'foo-slow':
                done = helpers + [t for t in reversed(foos) if age[t.identity] >= 3][:1]
            elif policy == 'helpers-late':
                done = [t for t in reversed(foos) if age[t.identity] >= 2][:1]
                if not foos:
                    done = helpers[-1:]
            else:
                done = [t for t in running if rnd.random() < 0.4]
            for t in done:
                schd.task_events_mgr.process_message(t, 'DEBUG', 'succeeded',
                                                     flag=schd.task_events_mgr.FLAG_RECEIVED)
            trace.append(('tick', iters, [t.identity for t in done]))
            if running:
                idle = 0
            else:
                idle += 1
                if idle >= 4:
                    end = 'no active task for 4 main loop iterations (stalled: %s)' % bool(schd.is_stalled)
                    break
    finally:
        await asyncio.wait_for(schd.shutdown(reason or SchedulerStop('c31 harness teardown')), 30)
    return end, iters


def _run_level(home, sc, wid, rnd):
    """one real scheduler run; returns (evaluations, problems, info)"""
    import asyncio
    from cylc.flow.task_proxy import TaskProxy
    from cylc.flow.task_job_mgr import TaskJobManager
    m = sc['mode']
    _write_flow(home, wid, _flow_text(sc, run=True))
    trace = []
    orig_reset, orig_submit = TaskProxy.state_reset, TaskJobManager.submit_task_jobs

    def state_reset(self, status=None, *a, **k):
        before = self.state.status
        changed = orig_reset(self, status, *a, **k)
        after = self.state.status
        if after != before:
            trace.append(('state', str(self.point), self.tdef.name, before, after))
        return changed

    def submit_task_jobs(self, itasks, *a, **k):
        itasks = list(itasks)
        for it in itasks:
            trace.append(('submit', str(it.point), it.tdef.name, it.state.status))
        return orig_submit(self, itasks, *a, **k)

    TaskProxy.state_reset = state_reset
    TaskJobManager.submit_task_jobs = submit_task_jobs
    try:
        end, iters = asyncio.run(_drive(sc, wid, trace, rnd))
    finally:
        TaskProxy.state_reset = orig_reset
        TaskJobManager.submit_task_jobs = orig_submit

    union = sc['union']
    name = {_pt(m, u): u for u in union}
    status, succeeded, submitted, problems, evals = {}, set(), [], [], 0

    def overlap_shape(act):
        """tagged only if every instance of the group but the earliest lacks its ordering for the tagged reason"""
        vals = sorted(name[q] for q in act if q in name)
        if len(vals) != len(act):
            return None
        shapes = {_shape_prev(sc, v, _prev_next(union, v)[0]) for v in vals[1:]}
        return shapes.pop() if len(shapes) == 1 else None

    for n, ev in enumerate(trace):
        if ev[0] == 'tick' or ev[2] != TASK:
            continue
        p = ev[1]
        if ev[0] == 'submit':
            submitted.append(p)
            evals += 1
            if p not in name:
                problems.append(dict(kind='off-sequence', event=n, submitted=p, detail='not a point of the task'))
                continue
            prev, _ = _prev_next(union, name[p])
            if prev is not None and prev >= sc['start'] and _pt(m, prev) not in succeeded:
                problems.append(dict(kind='order', event=n, submitted=p, previous_instance=_pt(m, prev),
                                     previous_status=status.get(_pt(m, prev), 'never seen'),
                                     shape=_shape_prev(sc, name[p], prev)))
            others = sorted(q for q, s in status.items() if s in ACTIVE and q != p)
            if others:
                problems.append(dict(kind='overlap', event=n, submitted=p, already_active=others,
                                     shape=overlap_shape(others + [p])))
        else:
            status[p] = ev[4]
            if ev[4] == 'succeeded':
                succeeded.add(p)
            if ev[4] in ACTIVE:
                evals += 1
                act = sorted(q for q, s in status.items() if s in ACTIVE)
                if len(act) > 1:
                    problems.append(dict(kind='overlap', event=n, active_together=act, shape=overlap_shape(act)))
    stop = sc['fcp']
    expected = [_pt(m, u) for u in union if u >= sc['start'] and (stop is None or u <= stop)]
    evals += 1
    wrong = [p for p in expected if submitted.count(p) != 1]
    if wrong:
        p = wrong[0]          # the first one; the later ones are its consequences
        prev = _prev_next(union, name[p])[0]
        problems.append(dict(kind='chain', point=p, submissions=submitted.count(p),
                             previous_instance=None if prev is None else _pt(m, prev),
                             previous_status=None if prev is None else status.get(_pt(m, prev), 'never seen'),
                             also_affected=len(wrong) - 1,
                             detail='instance of the window not submitted exactly once; run ended: ' + end,
                             shape=None if prev is None else _shape_next(sc, prev, name[p])))
    info = dict(end=end, iterations=iters, submitted=submitted, expected=len(expected))
    return evals, problems, info


# ----------------------------------------------------------------------------------------------------------

def _order_witnesses(ws):
    """untagged (not a reported finding's geometry) first; at most 12"""
    ws = sorted(ws, key=lambda w: 0 if any(not p.get('shape') for p in w['problems']) else 1)
    out = []
    for w in ws[:12]:
        probs = sorted(w['problems'], key=lambda p: 1 if p.get('shape') else 0)[:4]
        shapes = sorted({p.get('shape') or 'untagged' for p in w['problems']})
        out.append(dict(w, problems=probs, n_problems=len(w['problems']), shapes=shapes,
                        shape=(shapes[0] if shapes != ['untagged'] and len(shapes) == 1 else None)))
    return out


def check(tier='quick', seed=0):
    import random
    import threading
    import time
    t0 = time.time()
    budget = 80 if tier == 'quick' else 800
    scen = _definition_scenarios(tier)
    runs = _run_scenarios(tier, seed)
    res = {c: dict(evals=0, scen=0, bad=[], samples=[]) for c in 'PCGR'}
    mismatches, errors, done_def, done_run, points = [], [], 0, 0, 0
    skipped_def = skipped_run = 0
    main_thread = threading.current_thread() is threading.main_thread()
    with _Sandbox() as box:
        # run level first (few, and the more valuable observations), then the definition box
        if main_thread:
            for i, sc in enumerate(runs):
                if time.time() - t0 > budget * 0.5:
                    skipped_run += 1
                    continue
                rnd = random.Random(f'{seed}/{i}/{sc["policy"]}')
                try:
                    ev, problems, info = _run_level(box.home, sc, f'c31run{i}', rnd)
                except Exception as exc:       # harness or scheduler crash: not a verdict
                    errors.append(dict(scenario=_describe(sc), policy=sc['policy'], error=repr(exc)[:300]))
                    continue
                done_run += 1
                res['R']['evals'] += ev
                res['R']['scen'] += 1
                d = dict(_describe(sc), policy=sc['policy'], seed=seed)
                if problems:
                    res['R']['bad'].append(dict(scenario=d, run=dict(info, submitted=info['submitted'][:20]),
                                                problems=problems))
                elif len(res['R']['samples']) < 3 and i % 3 == 0:
                    res['R']['samples'].append(dict(scenario=d, submitted_in_order=info['submitted'][:14],
                                                    end=info['end']))
        for i, sc in enumerate(scen):
            if time.time() - t0 > budget:
                skipped_def += 1
                continue
            try:
                counts, problems, mism = _definition(box.home, sc, 'c31def')
            except Exception as exc:
                errors.append(dict(scenario=_describe(sc), error=repr(exc)[:300]))
                continue
            if mism:
                mismatches.append(dict(scenario=_describe(sc), **mism))
                continue
            done_def += 1
            points += counts['points']
            for c in 'PCG':
                res[c]['evals'] += counts[c]
                res[c]['scen'] += 1
                if problems[c]:
                    res[c]['bad'].append(dict(scenario=_describe(sc), problems=problems[c]))
                elif len(res[c]['samples']) < 3 and i % 97 == 5 and counts['points'] > 2:
                    res[c]['samples'].append(dict(scenario=_describe(sc), instances_checked=counts['points']))

    n_int = len(INT_MENU)
    n_dt = len(DT_MENU)
    box_txt = (f'definition level: every single recurrence and every pair'
               + ('' if tier == 'quick' else ' and every triple')
               + f' from a menu of {n_int} integer recurrences (P1 P2 P3 +P1/P2 +P2/P3 R/4/P4 R1 R1/+P4 R1/$ '
               f'P1!3 P2!(3,7) R2/^/P2 +P6/P6 +P9/P2 R3/+P1/P4 R1/6; initial point 1, final 16) and of {n_dt} '
               'datetime recurrences (P1D P2D P3D +P1D/P2D PT12H T06 +PT6H/PT18H R1 R1/+P2D R1/$ P1D!point '
               'PT12H!(2 points) R2/^/P2D +P4D/P2D R/point/P3D; UTC, initial 2000-01-01, final +8 days), plus '
               'P1D / P2D with P1M over two months (the #7342 shape)'
               + ('' if tier == 'quick' else ', plus the integer singles and pairs again from initial point 4')
               + '; variants: task alone / with a parent and '
               'a child task / warm start (--startcp inside the window) / no final cycle point ('
               + ('one or two variants per set, round robin' if tier == 'quick' else
                  'all four for singles and pairs, one per triple')
               + '); every instance of the task in the window is one evaluation. ')
    not_txt = ('NOT exercised: Gregorian month / year steps other than P1M on day 1, non-UTC time zones, 360/365-day '
               'calendars, exclusion by sub-recurrence, explicit self-dependencies in the graph, families in the '
               'sequential list, reload, restart, manual triggering / set / remove, flows other than 1, live job '
               'submission.')
    total_def = len(scen)
    out = []
    names = dict(
        P='bounded::the TaskState of every instance of a sequential task has exactly the unsatisfied prerequisite '
          '<previous point of the union of its recurrences>/task:succeeded (none before the start point) and no '
          'other prerequisite on itself',
        C='bounded::the succeeded output of every instance of a sequential task has the instance at the next point '
          'of the union of its recurrences among its graph children and no off-sequence instance of itself',
        G='bounded::generate_graph_parents reports exactly the previous point of the union of its recurrences as '
          'the implicit parent of an instance of a sequential task (data-store graph window only; scheduling does '
          'not depend on it)',
        R='bounded::in real simulation-mode scheduler runs no two instances of a sequential task are active '
          'together, each is submitted only after the previous instance succeeded, and none is left out')
    # Clause G (generate_graph_parents: the inferred parent shown in the data-store graph window) is evaluated
    # but NOT reported: C31 speaks of overlap and submission order, scheduling never reads that function, and
    # it disagrees with the union-of-recurrences reading for one-off recurrences (P2 + R1/6: parent of 7 is
    # shown as 5, not 6) - a display matter noted in DESIGN.md, not a C31 violation.
    for c in 'PCR':
        r = res[c]
        if c == 'R':
            rule = (f'run level: {len(runs)} real Scheduler runs in-process (simulation mode, runahead limit P40, '
                    'simulated jobs completed from outside by the policies eager / foo-slow / helpers-late / '
                    f'seeded random, seed {seed}) of 10 workflows (7 integer, 3 datetime; one or two recurrences, '
                    'exclusion, R1, final point, warm start, a parent task on one or on every recurrence); every '
                    'job submission and every change '
                    'to an active state of the sequential task is one evaluation, plus one completeness check per '
                    'run. ' + not_txt)
            intended, got = len(runs), done_run
        else:
            rule = box_txt + not_txt
            intended, got = total_def, done_def
        base = dict(name=names[c], kind='bounded', evaluations=r['evals'], distinct=r['scen'], rule=rule,
                    samples=r['samples'][:3], exhaustive=(c != 'R' and got == intended))
        n_known = sum(1 for w in r['bad'] if all(p.get('shape') for p in w['problems']))
        if r['bad']:
            out.append(dict(base, verdict='refuted', witness=_order_witnesses(r['bad']),
                            detail=f"{len(r['bad'])} of {r['scen']} scenarios break the clause "
                                   f"({n_known} of them only at points with the geometry of a finding reported "
                                   f"with this module, see kf_*; {len(r['bad']) - n_known} elsewhere)"))
        elif c == 'R' and not main_thread:
            out.append(dict(base, verdict='unknown', detail='run level needs the main thread (signal handlers)'))
        elif got < 0.9 * intended or mismatches or (c == 'R' and errors) or r['evals'] == 0:
            out.append(dict(base, verdict='unknown',
                            detail=f'{got} of {intended} scenarios executed; harness mismatches {mismatches[:2]}; '
                                   f'errors {errors[:2]}; skipped for time {skipped_def if c != "R" else skipped_run}'))
        else:
            extra = f'; {len(errors)} scenarios raised: {errors[:1]}' if errors else ''
            out.append(dict(base, verdict='proved',
                            detail=f"{r['scen']} scenarios, {r['evals']} evaluations" + extra))
    return out
