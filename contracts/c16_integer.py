"""C16 — integer recurrences denote the clipped arithmetic progression.

pts(s, x): membership of integer x in the set denoted by the *fields* of an
IntegerSequence s.  Every query method is proved to agree with that set under
the representation invariant wf_iseq; __init__ is proved to establish wf_iseq
and to make pts equal to the progression the recurrence text defines."""
from pyvc.spec import (contract, schema, spec, uninterp, implies, iff, forall, exists, int_text, REG)
from contracts.c18_points import ipt, pt_ok, iiv, iv_ok, canonical_pt

M = 'cylc.flow.cycling.integer:'
B = 'cylc.flow.cycling:'

schema('IntegerSequence', M + 'IntegerSequence', fields={
    'p_context_start': 'IntegerPoint', 'p_context_stop': 'opt[IntegerPoint]',
    'p_start': 'opt[IntegerPoint]', 'p_stop': 'opt[IntegerPoint]',
    'i_step': 'opt[IntegerInterval]', 'i_offset': 'IntegerInterval',
    'exclusions': 'opt[IntegerExclusions]'})
schema('IntegerExclusions', M + 'IntegerExclusions', fields={
    'exclusion_sequences': 'list[IntegerSequence]', 'exclusion_points': 'list[IntegerPoint]',
    'exclusion_start_point': 'opt[IntegerPoint]', 'exclusion_end_point': 'opt[IntegerPoint]'})


@uninterp(sorts=('IntegerExclusions', 'int'), result='bool')
def xin(excl, x):
    """Abstract exclusion set: is integer x excluded by the exclusions object?
    (a ghost function of the object: exclusions are immutable once built)"""
    from cylc.flow.cycling.integer import IntegerPoint
    return IntegerPoint(str(x)) in excl


@spec
def has_step(s):
    return s.i_step is not None and iiv(s.i_step) != 0


@spec
def stepv(s):
    return iiv(s.i_step)


@spec
def startv(s):
    return ipt(s.p_start)


@spec
def excluded(s, x):
    return s.exclusions is not None and xin(s.exclusions, x)


@spec
def on_step(s, x):
    return ((x - startv(s)) % stepv(s) == 0) if has_step(s) else (x == startv(s))


@spec
def in_bounds(s, x):
    return x >= startv(s) and (s.p_stop is None or x <= ipt(s.p_stop))


@spec
def pts(s, x):
    """x is a cycle point of sequence s."""
    return on_step(s, x) and in_bounds(s, x) and not excluded(s, x)


@spec
def wf_iseq(s):
    """Representation invariant established by __init__ and needed by the queries."""
    return (s.p_start is not None and pt_ok(s.p_start)
            and (s.p_stop is None or pt_ok(s.p_stop))
            and (s.i_step is None or (iv_ok(s.i_step) and iiv(s.i_step) > 0))
            and (s.i_step is not None or (s.p_stop is not None and ipt(s.p_stop) == ipt(s.p_start)))
            and (s.i_step is None or s.p_stop is None
                 or (ipt(s.p_stop) - ipt(s.p_start)) % iiv(s.i_step) == 0))


_SEQ = {'self': 'IntegerSequence', 'point': 'IntegerPoint'}
_PRE = ['wf_iseq(self)', 'pt_ok(point)']

contract(B + 'ExclusionBase.__contains__',
         sorts={'self': 'IntegerExclusions', 'point': 'IntegerPoint', 'result': 'bool'},
         requires=['pt_ok(point)'],
         ensures={'abstract-set': 'result == xin(self, ipt(point))'},
         pure=True, assumed=True, props=['C16'],
         note='defines the ghost set xin; proved against the body separately (C16x)')

contract(M + 'IntegerSequence.is_on_sequence',
         sorts=dict(_SEQ, result='bool'), requires=_PRE,
         ensures={'spec': 'result == (on_step(self, ipt(point)) and not excluded(self, ipt(point)))'},
         pure=True, props=['C16'])

contract(M + 'IntegerSequence._get_point_in_bounds',
         sorts=dict(_SEQ, result='opt[IntegerPoint]'), requires=_PRE,
         ensures={'none-iff-out': '(result is None) == (not in_bounds(self, ipt(point)))',
                  'same': 'result is None or result is point'},
         pure=True, props=['C16'])

contract(M + 'IntegerSequence.is_valid',
         sorts=dict(_SEQ, result='bool'), requires=_PRE,
         ensures={'membership': 'result == pts(self, ipt(point))'},
         pure=True, props=['C16'])

contract(M + 'IntegerSequence.get_next_point',
         sorts=dict(_SEQ, result='opt[IntegerPoint]'), requires=_PRE,
         ensures={'sound': 'result is None or (pt_ok(result) and ipt(result) > ipt(point) '
                           'and pts(self, ipt(result)))',
                  'least': 'forall(lambda x: implies(pts(self, x) and x > ipt(point), '
                           'result is not None and ipt(result) <= x))'},
         domain=[  # outside: known finding KF-C16-oneoff-excluded ("far before the start" was repaired)
             'has_step(self) or not excluded(self, startv(self)) or ipt(point) >= startv(self)'],
         props=['C16'])

contract(M + 'IntegerSequence.get_next_point_on_sequence',
         sorts=dict(_SEQ, result='opt[IntegerPoint]'),
         requires=_PRE + ['(not has_step(self)) or (ipt(point) - startv(self)) % stepv(self) == 0'],
         domain=['(not has_step(self)) or ipt(point) >= startv(self) - stepv(self)',
                 # a one-off sequence has no "next on sequence": callers only ask at/after its point
                 'has_step(self) or ipt(point) >= startv(self)'],
         ensures={'sound': 'result is None or (pt_ok(result) and ipt(result) > ipt(point) '
                           'and pts(self, ipt(result)))',
                  'least': 'forall(lambda x: implies(pts(self, x) and x > ipt(point), '
                           'result is not None and ipt(result) <= x))'},
         props=['C16'])

contract(M + 'IntegerSequence.get_prev_point',
         sorts=dict(_SEQ, result='opt[IntegerPoint]'), requires=_PRE,
         ensures={'sound': 'result is None or (pt_ok(result) and ipt(result) < ipt(point) '
                           'and pts(self, ipt(result)))',
                  'greatest': 'forall(lambda x: implies(pts(self, x) and x < ipt(point), '
                              'result is not None and ipt(result) >= x))'},
         domain=[  # one-off sequences always answer None (known finding); "more than one step past the
                   # stop point" was repaired
             'has_step(self) or ipt(point) <= startv(self)'],
         props=['C16'])

contract(M + 'IntegerSequence.get_nearest_prev_point',
         sorts=dict(_SEQ, result='opt[IntegerPoint]', prev_point='opt[IntegerPoint]',
                    sequence_point='opt[IntegerPoint]'),
         requires=_PRE,
         ensures={'sound': 'result is None or (pt_ok(result) and ipt(result) < ipt(point) '
                           'and pts(self, ipt(result)))',
                  'greatest': 'forall(lambda x: implies(pts(self, x) and x < ipt(point), '
                              'result is not None and ipt(result) >= x))'},
         loops={0: dict(invariant=[
             'sequence_point is None or (pt_ok(sequence_point) and in_bounds(self, ipt(sequence_point)) '
             'and on_step(self, ipt(sequence_point)))',
             'prev_point is None or (pt_ok(prev_point) and ipt(prev_point) <= ipt(point) '
             'and in_bounds(self, ipt(prev_point)) and on_step(self, ipt(prev_point)))',
             # everything valid and not beyond `point` is at or below prev_point, or still ahead
             'forall(lambda x: implies(pts(self, x) and x <= ipt(point), '
             '(prev_point is not None and x <= ipt(prev_point)) or '
             '(sequence_point is not None and x >= ipt(sequence_point))))',
             'prev_point is None or sequence_point is None or ipt(prev_point) < ipt(sequence_point)',
         ])},
         props=['C16', 'C31'])

contract(M + 'IntegerSequence.get_first_point',
         sorts=dict(_SEQ, result='opt[IntegerPoint]'), requires=_PRE,
         ensures={'sound': 'result is None or (pt_ok(result) and ipt(result) >= ipt(point) '
                           'and pts(self, ipt(result)))',
                  'least': 'forall(lambda x: implies(pts(self, x) and x >= ipt(point), '
                           'result is not None and ipt(result) <= x))'},
         props=['C16'])

contract(M + 'IntegerSequence.get_start_point',
         sorts={'self': 'IntegerSequence', 'result': 'opt[IntegerPoint]'},
         requires=['wf_iseq(self)'],
         ensures={'sound': 'result is None or (pt_ok(result) and pts(self, ipt(result)))',
                  'least': 'forall(lambda x: implies(pts(self, x), '
                           'result is not None and ipt(result) <= x))'},
         domain=['self.p_stop is None or ipt(self.p_stop) >= startv(self)'],   # KF-C16-empty
         props=['C16'])

contract(M + 'IntegerSequence.get_stop_point',
         sorts={'self': 'IntegerSequence', 'result': 'opt[IntegerPoint]'},
         requires=['wf_iseq(self)'],
         ensures={'sound': 'result is None or (pt_ok(result) and pts(self, ipt(result)))',
                  'greatest': 'forall(lambda x: implies(pts(self, x), '
                              'self.p_stop is None or (result is not None and ipt(result) >= x)))',
                  'none-iff-unbounded-or-empty':
                      'implies(result is None, self.p_stop is None or '
                      'forall(lambda x: not pts(self, x)))'},
         domain=['self.p_stop is None or ipt(self.p_stop) >= startv(self)'],   # KF-C16-empty
         props=['C16'])
