"""Index of contract modules, trusted base and glue assumptions per property."""
MODULES = [
    'contracts.c18_points',
    'contracts.c16_integer',
    'contracts.c16_init',
    'contracts.c16_replay',
    'contracts.shared_task',
    'contracts.c05_queues',
    'contracts.c05_replay',
    'contracts.c26_pool',
    'contracts.c26_replay',
    'contracts.externals',
    'contracts.c08_flows',
    'contracts.c08_replay',
    'contracts.c09_state',
    'contracts.c11_completion',
    'contracts.c32_expiry',
    'contracts.c02_retries',
    'contracts.c47_platforms',
    'contracts.c47_replay',
    'contracts.c24_restricted',
    'contracts.c13_prereq',
    'contracts.c10_messages',
    'contracts.c02_history',
    'contracts.c07_spawn',
    'contracts.c06_holds',
    'contracts.c03_stall',
    'contracts.c03_replay',
    'contracts.c13_dependency',
    'contracts.c02_history_replay',
    'contracts.c04_runahead',
    'contracts.c05_pool',
    'contracts.c05_pool_replay',
    'contracts.c43_stop',
    'contracts.c27_reload',
    'contracts.c45_abs',
    'contracts.c26_db',
    'contracts.c44_private',
    'contracts.c38_rm',
    'contracts.c39_names',
]

EXTRA_CHECKS = {'C26': ['contracts.c26_census:check'],
                'C09': ['contracts.c09_census:check'],
                'C24': ['contracts.c24_restricted:whitelist_check', 'contracts.c24_bounded:check'],
                'C02': ['contracts.c02_retries:census'],
                'C32': ['contracts.c32_expiry:census'],
                'C11': ['contracts.c11_bounded:check'],
                'C05': ['contracts.c05_bounded:check'],
                'C13': ['contracts.c13_bounded:check', 'contracts.c13_ops_bounded:check',
                        'contracts.c13_dependency_bounded:check'],
                'C46': ['contracts.c13_dependency_bounded:check'],
                'C03': ['contracts.c03_replay:bounded_unsat'],
                'C10': ['contracts.c10_bounded:check'],
                'C16': ['contracts.c16_bounded:check'],
                'C18': ['contracts.c18_bounded:check'],
                'C47': ['contracts.c47_bounded:check', 'contracts.c47_bounded:check_group'],
                # bounded stand-ins (contracts checked at run time over an enumerated scope; level
                # "exploration", never counted as proof)
                'C12': ['contracts.c12_bounded:check', 'contracts.c12_validation_bounded:check'],
                'C17': ['contracts.c17_bounded:check'],
                'C19': ['contracts.c19_bounded:check'],
                'C27': ['contracts.c27_bounded:check'],
                'C29': ['contracts.c29_bounded:check'],
                'C30': ['contracts.c30_bounded:check'],
                'C31': ['contracts.c31_bounded:check'],
                'C38': ['contracts.c38_bounded:check'],
                'C43': ['contracts.c43_bounded:check'],
                'C45': ['contracts.c45_bounded:check'],
                'C21': ['contracts.c21_bounded:check'],
                'C22': ['contracts.c22_bounded:check'],
                'C33': ['contracts.c33_bounded:check'],
                'C41': ['contracts.c41_bounded:check'],
                'C44': ['contracts.c44_bounded:check'],
                'C23': ['contracts.c23_bounded:check'],
                'C35': ['contracts.c35_bounded:check'],
                'C37': ['contracts.c37_bounded:check'],
                'C39': ['contracts.c39_bounded:check'],
                'C40': ['contracts.c40_bounded:check'],
                'C42': ['contracts.c42_bounded:check'],
                'C48': ['contracts.c48_bounded:check']}

EXPECTED_MIN_OBLIGATIONS = {'C18': 150}

TRUSTED_BASE = [
    'z3 5.1 (python API) and cvc5 1.0.3 (second opinion on unknowns)',
    'CPython ast module; pyvc symbolic executor encoding of the Python subset (DESIGN 2.3)',
    'A-LOG: LOG.* calls are dropped; formatting their arguments has no effect on verified state',
    'Python ints are mathematical integers (exact); % and // by fresh q,r with floor semantics',
]

TRUSTED = {
    'C18': [
        'pymodel A-STRINT-1..3, A-REPL-1, A-STRFLOAT, A-REGEX: axioms about str(int)/int(str)/str.replace/re (instantiated, not proved)',
        'datetime points (ISO8601Point/Interval) delegate to metomi.isodatetime: not covered, only the shared PointBase/IntervalBase plumbing is proved (instantiated at the integer classes)',
    ],
}

TRUSTED['C44'] = [
    'POSIX model of contracts/c44_private.py (handlers, not contracts): os.umask(m) sets the process umask and '
    'returns the previous one; a file created by zmq.auth.create_certificates / shutil.copyfile gets mode '
    '(requested & ~umask), so it is owner-only when the umask is 0o177; os.chmod(p, m) sets the mode of p; '
    'os.makedirs / os.unlink / rmtree do not create key files; get_pri_dao may create the database file with any mode',
]
TRUSTED['C38'] = ['os.path model: isabs(p) == p.startswith("/"); normpath is an arbitrary function of the text; '
                  'str.split(sep) is some non-empty list of substrings without sep']
TRUSTED['C39'] = TRUSTED['C38'][:1]

GLUE = {
    'C18': [],
}
